"""In-memory reference model of a VMAP file as seen through the public importer.

Plain dicts/lists.  A mesh spec (as written in a trace) is

  {"z": "none"|"const"|"vary",
   "elements": [[element_id, [node ids in element order]], ...]   (mesh row order),
   "coords": {str(node_id): [x, y(, z)]},
   "nodal": {"DISPLACEMENT": {str(node_id): [dx, dy, dz]}, ...},
   "elnodal": {"STRESS_CAUCHY": [[...6 values] per mesh row], ...}}
"""

NODES_2D = (3, 6, 4, 8)
NODES_3D = (4, 10, 6, 15, 8, 20)
ELEMENT_TYPE_ID = {(2, 3): 0, (2, 6): 1, (2, 4): 2, (2, 8): 3, (3, 4): 4, (3, 10): 5,
                   (3, 6): 6, (3, 15): 7, (3, 8): 8, (3, 20): 9}
KNOWN_VARS = {
    "DISPLACEMENT": (["dx", "dy", "dz"], "NODE"),
    "STRESS_CAUCHY": (["S11", "S22", "S33", "S12", "S13", "S23"], "ELEMENT_NODAL"),
    "E": (["E11", "E22", "E33", "E12", "E13", "E23"], "ELEMENT_NODAL"),
}


def mesh_dimension(mesh):
    """2 or 3, by the exporter's documented convention: 3-D iff there is a z
    column that is not constant."""
    if mesh["z"] != "vary":
        return 2
    zs = [c[2] for c in mesh["coords"].values()]
    return 3 if any(z != zs[0] for z in zs) else 2


def mesh_rows(mesh):
    """[(element_id, node_id)] in mesh row order."""
    return [(int(e), int(n)) for e, nodes in mesh["elements"] for n in nodes]


def mesh_valid_for_geometry(mesh):
    dim = mesh_dimension(mesh)
    ok_nodes = NODES_2D if dim == 2 else NODES_3D
    return all(len(nodes) in ok_nodes for _, nodes in mesh["elements"]) and len(mesh["elements"]) > 0


def expected_index(mesh):
    """elements ordered by id, node order inside each element preserved."""
    out = []
    for e, nodes in sorted(mesh["elements"], key=lambda en: en[0]):
        out += [(int(e), int(n)) for n in nodes]
    return out


def coord_columns(mesh):
    return ["x", "y"] if mesh["z"] == "none" else ["x", "y", "z"]


class Model:
    def __init__(self):
        self.geoms = {}       # name -> mesh spec
        self.sets = {}        # geom -> list of (type 'n'|'e', name, [ids])
        self.vars = {}        # (state, geom, var) -> {"loc":..., "columns":[...], "mesh": mesh spec, "src": col names in mesh}
        self.states = []      # in creation order

    # ---- validity predictions: does a correct exporter have to accept the call?
    def geometry_call_ok(self, name, mesh):
        return name not in self.geoms and mesh_valid_for_geometry(mesh)

    def set_call_ok(self, geom, kind, ids, mesh, name):
        if geom not in self.geoms:
            return False
        if name is not None and not isinstance(name, str):
            return False
        pool = {n for _, nodes in mesh["elements"] for n in nodes} if kind == "n" else {e for e, _ in mesh["elements"]}
        return set(ids) <= pool

    def variable_call_ok(self, state, geom, var, mesh, columns, location, available_columns):
        if geom not in self.geoms:
            return False
        if (state, geom, var) in self.vars:
            return False
        if columns is None:
            if var not in KNOWN_VARS:
                return False
            columns = KNOWN_VARS[var][0]
        if location is None:
            if var not in KNOWN_VARS:
                return False
        elif location not in ("NODE", "ELEMENT_NODAL"):
            return False
        return all(c in available_columns for c in columns)

    # ---- acknowledged effects
    def add_geometry(self, name, mesh):
        self.geoms[name] = mesh
        self.sets[name] = []

    def add_set(self, geom, kind, ids, name):
        self.sets[geom].append((kind, "" if name is None else name, [int(i) for i in ids]))

    def add_variable(self, state, geom, var, mesh, columns, location, source):
        if state not in self.states:
            self.states.append(state)
        loc = location or KNOWN_VARS[var][1]
        cols = columns or KNOWN_VARS[var][0]
        self.vars[(state, geom, var)] = {"loc": loc, "columns": list(cols), "mesh": mesh, "source": source}

    def expected_variable(self, state, geom, var):
        """{(element_id, node_id): [values]} over the geometry's rows."""
        v = self.vars[(state, geom, var)]
        vm = v["mesh"]
        src = v["source"]
        out = {}
        if v["loc"] == "NODE" or src in vm["nodal"]:
            # nodal data (also when it is stored row by row as an element-nodal variable: every row of a node
            # carries the node's value)
            per_node = vm["nodal"][src]
            for e, n in expected_index(self.geoms[geom]):
                out[(e, n)] = per_node.get(str(n))
        else:
            rows = mesh_rows(vm)
            vals = vm["elnodal"][src]
            table = {}
            for (e, n), val in zip(rows, vals):
                table[(e, n)] = val
            for e, n in expected_index(self.geoms[geom]):
                out[(e, n)] = table.get((e, n))
        return out

"""Independent oracle for C04, written from the statement: the closed cycles of
the endlessly repeated sequence = rainflow cycles of the periodic reversal
sequence started at its largest absolute load, closed into a loop.

Plain Python; loads are numbers that compare exactly (a grid).
"""
from models.rainflow_ref import four_point


def cyclic_reversals(seq):
    """Values of the reversals of the endlessly repeated sequence, in order,
    starting somewhere; [] if fewer than two distinct values."""
    # compress consecutive duplicates, also across the junction
    comp = []
    for x in seq:
        if not comp or comp[-1] != x:
            comp.append(x)
    while len(comp) > 1 and comp[0] == comp[-1]:
        comp.pop()
    m = len(comp)
    if m < 2:
        return []
    rev = []
    for i in range(m):
        a, b, c = comp[i - 1], comp[i], comp[(i + 1) % m]
        if (b - a) * (c - b) < 0:
            rev.append(b)
    return rev


def periodic_cycles(seq):
    """Sorted list of (min, max) load pairs of the closed cycles of the
    repeated sequence, each once."""
    rev = cyclic_reversals(seq)
    if not rev:
        return []
    big = max(abs(x) for x in rev)
    start = next(i for i, x in enumerate(rev) if abs(x) == big)
    loop = rev[start:] + rev[:start] + [rev[start]]
    cycles, residual = four_point(list(enumerate(loop)))
    out = [(min(a, b), max(a, b)) for a, b, _, _ in cycles]
    res = [v for _, v in residual]
    if len(res) != 3 or res[0] != res[2]:
        raise AssertionError("periodic oracle: unexpected residual %r for %r" % (res, seq))
    out.append((min(res[0], res[1]), max(res[0], res[1])))
    return sorted(out)


def is_periodic_reversal_last(seq):
    """Is the last sample a reversal of the repeated sequence?"""
    n = len(seq)
    last = seq[-1]
    # previous distinct value (cyclically), next distinct value (cyclically)
    prev = next((seq[(n - 1 - k) % n] for k in range(1, n + 1) if seq[(n - 1 - k) % n] != last), None)
    nxt = next((seq[k % n] for k in range(n, 2 * n) if seq[k % n] != last), None)
    if prev is None or nxt is None:
        return False
    return (last - prev) * (nxt - last) < 0

"""Independent scalar implementation of the FKM-nonlinear HCM procedure
(guideline 2.9.7): primary branch, Masing secondary branches, Memory 1/2/3.

Plain floats and lists.  `law` offers the scalar interface
    stress(L), strain(S, L), dstress(dL), dstrain(dS, dL).
Loads are on a grid, so comparisons are exact (the code's 1e-12 guards never
matter).
"""


class Point:
    __slots__ = ("L", "S", "e")

    def __init__(self, L, S, e):
        self.L, self.S, self.e = L, S, e


class HcmRef:
    def __init__(self, law):
        self.law = law
        self.stack = []          # open points
        self.ir = 1
        self.Lmax = 0.0
        self.rows = []           # recorded hystereses
        self.strains = []        # (run_index, strain) of every visited turning point
        self.eps_min_LF = 0.0
        self.eps_max_LF = 0.0
        self.events = []         # Memory events, for reach probes

    def primary(self, L):
        S = self.law.stress(L)
        return Point(L, S, self.law.strain(S, L))

    def secondary(self, prev, L):
        dL = L - prev.L
        dS = self.law.dstress(dL)
        de = self.law.dstrain(dS, dL)
        return Point(L, prev.S + dS, prev.e + de)

    def _record(self, run, lmin, lmax, smin, smax, emin, emax, closed):
        zero = not closed
        sa = 0.5 * (smax - smin)
        ea = 0.5 * (emax - emin)
        sm = 0.0 if zero else 0.5 * (smin + smax)
        em = 0.0 if zero else 0.5 * (emin + emax)
        if zero:
            R = -1.0
        elif smax == 0:
            R = float("nan") if smin == 0 else (float("inf") if smin > 0 else float("-inf"))
        else:
            R = smin / smax
        self.rows.append({"loads_min": lmin, "loads_max": lmax, "S_min": smin, "S_max": smax, "R": R,
                          "epsilon_min": emin, "epsilon_max": emax, "S_a": sa, "S_m": sm,
                          "epsilon_a": ea, "epsilon_m": em,
                          "epsilon_min_LF": self.eps_min_LF, "epsilon_max_LF": self.eps_max_LF,
                          "is_closed_hysteresis": closed, "is_zero_mean_stress_and_strain": zero,
                          "run_index": run})

    def feed(self, L, run):
        while True:
            iz = len(self.stack)
            if iz == self.ir:
                prev = self.stack[-1]
                if abs(L) > self.Lmax:
                    # Memory 3: half loop between -|prev| and +|prev|, rest on the primary branch
                    self._record(run, -abs(prev.L), abs(prev.L), -abs(prev.S), abs(prev.S),
                                 -abs(prev.e), abs(prev.e), False)
                    cur = self.primary(L)
                    self.ir += 1
                    self.events.append("M3")
                else:
                    cur = self.secondary(prev, L)
                break
            if iz < self.ir:
                cur = self.primary(L)
                break
            p0, p1 = self.stack[-2], self.stack[-1]
            if abs(L - p1.L) < abs(p1.L - p0.L):
                cur = self.secondary(p1, L)
                break
            self._record(run, min(p0.L, p1.L), max(p0.L, p1.L), min(p0.S, p1.S), max(p0.S, p1.S),
                         min(p0.e, p1.e), max(p0.e, p1.e), True)
            self.stack.pop()
            self.stack.pop()
            if abs(p0.L) < self.Lmax and abs(p1.L) < self.Lmax:
                self.events.append("M2")
                continue
            self.events.append("M1")
            cur = self.primary(L)
            break
        if abs(L) > self.Lmax:
            self.Lmax = abs(L)
        self.stack.append(cur)
        self.strains.append((run, cur.e))
        if cur.e > self.eps_max_LF:
            self.eps_max_LF = cur.e
        if cur.e < self.eps_min_LF:
            self.eps_min_LF = cur.e
        return cur

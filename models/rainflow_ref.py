"""Executable definitions written from the statement of C02 (not from the code).

Plain Python lists and floats, no numpy.
"""


def runs_of(signal):
    """[(value, first_index, last_index)] of maximal runs of equal samples."""
    runs = []
    for i, x in enumerate(signal):
        if runs and runs[-1][0] == x:
            runs[-1][2] = i
        else:
            runs.append([x, i, i])
    return runs


def interior_reversals(signal):
    """[(index, value)] of interior reversals; a plateau is indexed at its first
    sample.  The first and the last run are never interior reversals."""
    runs = runs_of(signal)
    out = []
    for j in range(1, len(runs) - 1):
        a, b, c = runs[j - 1][0], runs[j][0], runs[j + 1][0]
        if (b > a and c < b) or (b < a and c > b):      # by comparison, not by a product that can underflow
            out.append((runs[j][1], b))
    return out


def turning_points(signal):
    """first sample, interior reversals, last sample (statement of C02)."""
    n = len(signal)
    tp = [(0, signal[0])] + interior_reversals(signal) + [(n - 1, signal[n - 1])]
    return tp


def four_point(tp):
    """Textbook four-point rule on a stack.

    tp: [(index, value)].  Returns (cycles, residual) with
    cycles = [(from_value, to_value, from_index, to_index)] in closing order,
    residual = [(index, value)].
    """
    stack = []
    cycles = []
    for p in tp:
        stack.append(p)
        while len(stack) >= 4:
            (ia, a), (ib, b), (ic, c), (id_, d) = stack[-4:]
            # |b-c| <= |a-b| and |b-c| <= |c-d| in exact arithmetic: the points alternate, so the inner range fits
            # into the outer ones iff c does not pass a and b does not pass d.  (Floating point differences round:
            # a range that is larger by less than the rounding would tie.)
            if (b > c and c >= a and d >= b) or (b < c and c <= a and d <= b):
                cycles.append((b, c, ib, ic))
                del stack[-3:-1]
            else:
                break
    return cycles, stack


def hcm(reversals):
    """Clormann-Seeger HCM on a sequence of reversal values.

    The residue stack has a primary-path mark IR: the first IR entries lie on
    the primary (initial loading) curve.  A hysteresis (I, J) hanging on the
    stack beyond the mark is closed by the new point K if |K-J| >= |J-I|.
    After closing, further hystereses may only be closed by the same K as long
    as the one just closed lay strictly inside the largest |load| seen so far
    (otherwise K continues on the primary curve).  When the stack is exactly at
    the mark and |K| exceeds the largest |load| so far the mark moves up.

    Returns (cycles [(from, to)], residual values).
    """
    res = []
    ir = 1
    biggest = 0.0
    cycles = []
    for k in reversals:
        while True:
            iz = len(res)
            if iz < ir:
                break
            if iz > ir:
                j, i = res[-1], res[-2]
                # |k-j| >= |j-i| in exact arithmetic: k reaches or passes i (the points alternate)
                if (j > i and k <= i) or (j < i and k >= i):
                    cycles.append((i, j))
                    res.pop()
                    res.pop()
                    if abs(j) < biggest and abs(i) < biggest:
                        continue
                break
            # iz == ir
            if abs(k) > biggest:
                ir += 1
            break
        biggest = max(biggest, abs(k))
        res.append(k)
    return cycles, res

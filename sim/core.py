"""Simulator kernel: seed discipline, traces, digests, violation classes,
minimiser, known findings.  No pyLife import here.

A *world* module provides

    NAME, PROPS
    generate(prop, rng, tier)  -> trace  (JSON-able dict; everything a run does
                                          is written out in it: inputs, schedule,
                                          faults.  Replay uses no PRNG.)
    execute(prop, trace)       -> Outcome
    shrink(prop, trace)        -> iterator of smaller candidate traces
    classify(prop, trace, v)   -> signature string (used for known findings)
    describe(prop)             -> static evidence text (rule, components, ...)
"""
import hashlib
import json
import math
import os
import random

VERIF = os.path.dirname(os.path.dirname(os.path.abspath(__file__)))
DEFAULT_SEED = 20260927


def master_seed():
    return int(os.environ.get("VERIF_SEED", DEFAULT_SEED))


def run_seed(master, prop, i):
    h = hashlib.sha256(("%d/%s/%d" % (master, prop, i)).encode()).digest()
    return int.from_bytes(h[:8], "big")


def rng_for(master, prop, i):
    return random.Random(run_seed(master, prop, i))


def _canon(o):
    """JSON-able canonical form: floats by repr, numpy scalars to python,
    no sets, dict keys sorted by json.dumps(sort_keys)."""
    if o is None or isinstance(o, (bool, str)):
        return o
    if isinstance(o, int):
        return o
    if isinstance(o, float):
        if math.isnan(o):
            return "nan"
        if math.isinf(o):
            return "inf" if o > 0 else "-inf"
        return o
    if isinstance(o, (list, tuple)):
        return [_canon(x) for x in o]
    if isinstance(o, dict):
        return {str(k): _canon(v) for k, v in o.items()}
    if isinstance(o, (set, frozenset)):
        raise TypeError("sets are not allowed in traces/logs (hash order)")
    # numpy
    if hasattr(o, "tolist"):
        return _canon(o.tolist())
    if hasattr(o, "item"):
        return _canon(o.item())
    raise TypeError("cannot canonicalise %r" % type(o))


def cjson(o):
    return json.dumps(_canon(o), sort_keys=True, separators=(",", ":"))


def digest(o):
    return hashlib.sha256(cjson(o).encode()).hexdigest()[:20]


class Log:
    """Event log of a run.  Only its digest is kept (logs can be long);
    appending never draws randomness and never reads a clock."""

    def __init__(self, keep=False):
        self._h = hashlib.sha256()
        self.n = 0
        self.keep = keep
        self.events = []

    def add(self, *event):
        s = cjson(event)
        self._h.update(s.encode())
        self._h.update(b"\n")
        self.n += 1
        if self.keep:
            self.events.append(json.loads(s))

    def digest(self):
        return self._h.hexdigest()[:20]


class RealCodeError(Exception):
    """An exception escaped from pyLife (as opposed to from the harness)."""

    def __init__(self, where, exc):
        super().__init__("%s: %s: %s" % (where, type(exc).__name__, exc))
        self.where = where
        self.exc_type = type(exc).__name__
        self.msg = str(exc)


class Outcome:
    def __init__(self):
        self.violations = []     # list of dict(oracle, component, detail)
        self.counters = {}       # name -> int (faults fired, probes, steps)
        self.sigs = []           # distinctness signatures (strings), non-trivial cases only
        self.digest = ""
        self.steps = 0

    def violate(self, oracle, component, detail):
        self.violations.append({"oracle": oracle, "component": component,
                                "detail": _canon(detail)})

    def count(self, name, n=1):
        self.counters[name] = self.counters.get(name, 0) + n

    def as_dict(self):
        return {"violations": self.violations, "counters": self.counters,
                "sigs": self.sigs, "digest": self.digest, "steps": self.steps}


def vclass(v):
    return (v["oracle"], v["component"])


_CANARY = {}          # world name -> observation of the canary scenario at process start
_POISONED = set()


def arm_canary(world):
    """Compute the canary observation while the process is still pristine (before any run)."""
    if hasattr(world, "canary") and world.NAME not in _CANARY:
        try:
            _CANARY[world.NAME] = cjson(world.canary())
        except Exception as e:      # noqa - a tree on which even the canary scenario fails: the runs will say why
            _CANARY[world.NAME] = "exception:%s:%s" % (type(e).__name__, str(e)[:200])


def check_canary(world, out):
    """After a run: fresh objects fed a fixed input must still give what they gave at process start.
    If not, the run left hidden process-wide state behind (module / class level, caches that change
    results) - the outputs are no longer a function of the inputs, which every property presupposes.
    The first run after which the canary differs is the one that poisoned the state; its trace alone
    reproduces in a fresh interpreter (canary, run, canary)."""
    name = getattr(world, "NAME", None)
    if name not in _CANARY or name in _POISONED:
        return
    try:
        now = cjson(world.canary())
    except Exception as e:      # noqa
        now = "exception:%s:%s" % (type(e).__name__, str(e)[:200])
    if now != _CANARY[name]:
        _POISONED.add(name)
        out.violate("I0-no-hidden-shared-state", "canary",
                    {"note": "a fixed scenario on fresh objects gives another result after this run than at process start",
                     "before": _CANARY[name][:400], "after": now[:400]})


def safe_execute(world, prop, trace):
    """world.execute, with an exception escaping from it turned into a violation.

    On the unchanged tree execute() never raises (that would have shown up as a
    harness error while building the checks).  If it raises on a changed tree,
    the overwhelmingly likely cause is that pyLife handed out something
    malformed (None, a wrong container, a missing level) which the harness
    then tripped over; reporting that as a harness error would hide a real
    defect.  The exception is deterministic, so it minimises and replays like
    any other violation."""
    import traceback
    arm_canary(world)
    try:
        out = world.execute(prop, trace)
        check_canary(world, out)
        return out
    except Exception as e:      # noqa
        out = Outcome()
        tb = traceback.extract_tb(e.__traceback__)
        where = "%s:%s" % (os.path.basename(tb[-1].filename), tb[-1].name) if tb else "?"
        out.violate("exception", "unexpected-output:" + type(e).__name__,
                    {"type": type(e).__name__, "msg": str(e)[:300], "raised_in": where,
                     "note": "exception while the harness was evaluating what pyLife returned"})
        out.digest = digest(["exception", type(e).__name__, str(e)[:300]])
        return out


def minimise(world, prop, trace, target_class, budget=1500, time_budget=90.0,
             clock=None, accept=None):
    """Greedy delta debugging driven by the world's shrink() candidates.

    A candidate is kept only while a violation of the *same class*
    (oracle, component) persists.  Returns (trace, violation, tried)."""
    import time as _t
    t0 = _t.monotonic()
    tried = 0

    def failing(tr):
        out = safe_execute(world, prop, tr)
        for v in out.violations:
            if vclass(v) == target_class and (accept is None or accept(tr, v)):
                return v
        return None

    best_v = failing(trace)
    if best_v is None:
        return trace, None, 0
    progress = True
    while progress and tried < budget and _t.monotonic() - t0 < time_budget:
        progress = False
        for cand in world.shrink(prop, trace):
            tried += 1
            if tried >= budget or _t.monotonic() - t0 >= time_budget:
                break
            v = failing(cand)
            if v is not None:
                trace, best_v = cand, v
                progress = True
                break
    return trace, best_v, tried


# ---------------------------------------------------------------- findings

def load_findings():
    p = os.path.join(VERIF, "known_findings.json")
    if not os.path.exists(p):
        return []
    with open(p) as f:
        return json.load(f)["findings"]


def match_finding(findings, prop, signature):
    if signature is None:
        return None
    for f in findings:
        if f.get("status") == "open" and f["property"] == prop and f["signature"] == signature:
            return f
    return None


# ---------------------------------------------------------------- generic shrink helpers

def drop_chunks(seq, min_len=0):
    """ddmin-style candidates: seq with a block removed, big blocks first."""
    n = len(seq)
    size = n // 2
    while size >= 1:
        for start in range(0, n, size):
            cand = seq[:start] + seq[start + size:]
            if len(cand) >= min_len and len(cand) < n:
                yield cand
        size //= 2

"""Writes MANIFEST.json (kept generated so that it stays valid and consistent)."""
import json, os
VERIF = os.path.dirname(os.path.dirname(os.path.abspath(__file__)))

NA = {
 "C06": "pure root-finding on immutable arguments; the Seeger-Beste per-element retry fires as a deterministic function of the input - no schedule, clock, fault or history for a simulator to own",
 "C07": "binned law is an immutable look-up table built in the constructor plus a binary search; no state changes after construction, no I/O, no interleaving",
 "C08": "Woehler-curve inverse/scatter identities are closed-form algebra on a copied Series; a pure function of its input",
 "C09": "P_RAM/P_RAJ curves, damage parameter and lifetime are closed forms / a root search on fixed inputs; nothing depends on a schedule, fault or history",
 "C10": "metamorphic relations between calls of a pure pipeline; its stream-level ingredients are decided at the detector under C03/C04 and batch independence of the HCM stage under C05",
 "C11": "Miner damage linearity / Gassner consistency are algebraic identities of pure functions",
 "C12": "mean-stress transformation is algebra on the Haigh plane plus a pure re-binning; no state, I/O or interleaving",
 "C14": "collective/histogram accounting identities of pure functions; each call starts from its arguments, no history",
 "C15": "failure probability: quadrature versus closed form on fixed inputs; pure function",
 "C16": "Ramberg-Osgood / Hooke / true-stress identities and a scalar Newton inversion; pure functions",
 "C17": "equivalent stresses: eigenvalue algebra on immutable arrays; pure functions",
 "C18": "Woehler test-data analysis is a deterministic estimator (scipy optimisers are deterministic); row permutation is an input transformation, not an arrival schedule the code observes",
 "C19": "mesh operators (gradient, hotspot, mapping) are geometry on immutable frames; the element-group cache is never invalidated by anything the property varies",
}

def check(pid, level, text, note, technique, ref):
    return {"property_id": pid,
            "quick_cmd": "./check run %s --tier quick" % pid,
            "thorough_cmd": "./check run %s --tier thorough" % pid,
            "evidence_file": "evidence/%s.json" % pid,
            "replay_cmd_template": "./check replay {path}",
            "engine": "sim",
            "level_claimed": {"category": level, "text": text, "design_ref": ref},
            "level_note": note, "technique": technique}

CHECKS = {
 "C01": check("C01", "exploration",
   "Seeded search over delivery schedules: every run partitions a seeded signal into chunks per live replica (adversarial cuts at/around turning points and inside plateaus, length-1 chunks, >=3 chunks, now and then thousands of tiny chunks or recordings beyond 2**16 samples), interleaves 1-4 live 3-point/4-point/FKM detector instances with five recorder kinds (incl. three user-written ones, one of which works inside the callbacks: look-ups in the chunk bookkeeping and a second detector fed from within record_values - the only pre-emption points of this code), delivers chunks in several containers and dtypes (also changing from block to block), injects refused blocks (a malformed block raises, is caught, the history goes on), overwrites the caller's buffer after the call in 30% of the runs, and after every delivery compares the replica with a fresh one-piece replica of the consumed prefix and maps every reported global index back through the chunk bookkeeping to the sample actually delivered. A canary scenario detects process-wide state left behind by a run. Sampling, not proof; the right level because the space (signals x partitions x interleavings) is unbounded. In a quarter of the runs the history ends with residue doubling: the detector is fed the very array its residuals property handed out. Blocks that end at a reversal are now and then delivered with flush=True in the middle of a history; every chunk look-up is repeated with narrow integer index arrays.",
   "Trusted: the one-piece replica of the working tree as reference (its meaning is pinned independently by C02). Thorough tier only: a marathon with about 2**24 turning points in one call, one piece against chunks. Minimised witnesses are replayed in a fresh interpreter under another PYTHONHASHSEED before being reported.",
   "deterministic simulation: seeded chunk-delivery scheduler over interleaved live detector replicas, prefix-refinement oracle against a single-copy reference, ddmin-minimised replay traces", "DESIGN.md 4.1"),
 "C02": check("C02", "exploration",
   "The executable four-point / HCM definition (models/rainflow_ref.py) is the simulator's sequential specification: one-piece replicas of all three detectors and find_turns are compared with it on seeded signals with heavy ties and plateaus (I3), and under every seeded chunk schedule the exactly-once accounting of turning points (cycle ends + residual = turning points of the consumed prefix, indices address their values) is checked at every border (I4). The old-style counters RainflowCounterThreePoint / RainflowCounterFKM (facades of the same detectors) are driven in chunks with the loops read between the calls and judged by the same definition. Mid-stream flushes at reversals must change nothing that is reported afterwards.",
   "Trusted: models/rainflow_ref.py (written from the statement). I3 itself has no schedule in it; the schedule-dependent content is I4. Thorough tier only: marathon histories whose sample counter passes 2**31 / 2**32 (closed-form signal, closed-form turning points).",
   "deterministic simulation: reference-model (sequential specification) oracle plus exactly-once accounting invariant checked at every chunk border of seeded delivery schedules", "DESIGN.md 4.2"),
 "C03": check("C03", "exploration",
   "Fault-injecting configuration of the stream world: a twin replica receives the signal with injected non-reversal samples (duplicates, intermediate points, slope plateaus, trailing duplicates), NaN samples, negated, exactly affinely mapped, or wrapped in a pandas Series with seven index types; its cycles, residuals and indices must equal the image of the reference replica's. Each fault kind is counted when it fires. Blocks of the twin are also handed over as non-contiguous views of a wider array (a channel of a multi-channel recording). Series labels include unsorted time stamps and time deltas.",
   "Trusted: dyadic signals so that the injected samples and affine maps are exact; the reference replica is fed in one piece, the twin in seeded chunks in 40% of the runs. Thorough tier only: a refinement twin of 2**31 / 2**32 samples against its reversal sequence.",
   "deterministic simulation: seeded stream-fault injection (duplicate / intermediate / NaN samples) into a twin replica compared with an unfaulted reference replica", "DESIGN.md 4.3"),
 "C20": check("C20", "fault_enumeration",
   "Histories of add_geometry / add_node_set / add_element_set / add_variable / read-back calls (incl. calls that must raise) on one exporter and one real HDF5 file, compared with an in-memory model through the public importer after every step; for the faulted operation of a history ENOSPC is raised before, or EIO after, a seam call (h5py create_group / create_dataset / attribute create) - thorough tier: every seam call of that operation in both modes, each from a byte copy of the file - followed by the 'failed => absent, rest intact, counters consistent' comparison and an unfaulted retry that must succeed. Enumerates the fault points of the operation; samples histories and meshes. Read-back includes set filters, filter-then-join, element-set/node-set filter chains in both orders and join chains across states.",
   "Trusted: models/vmap_ref.py; h5py/libhdf5 below the seam (no faults inside libhdf5, the roll-back's own __delitem__, or File.close; no process kill: C20 promises roll-back of a failed call, not crash durability).",
   "deterministic simulation with fault injection at the storage seam: seeded operation histories against a reference model, ENOSPC/EIO enumerated over every h5py create/attribute call of the faulted operation, retry-after-fault progress check", "DESIGN.md 4.7"),
 "C04": check("C04", "exploration",
   "Histories process_hcm_first(s), process_hcm_second(s) over seeded load sequences that swarm over every junction configuration (last sample a periodic reversal or not, signs of first/last, last between zero and first, leading/trailing plateaus, largest load only at the end, non-reversal last sample passing older reversals) with injected non-reversal samples incl. at the junction; the second-pass multiset of load pairs must equal the closed-loop rainflow count of the periodic reversal sequence (independent oracle), Memory-3 rows must be first-pass and symmetric, an interior-refinement twin must count the same per pass. The passes are also fed two different recordings of the same repeated sequence, from separate objects or read into one buffer refilled in place. Batched replicas use point factors of either sign.",
   "Trusted: models/periodic_rainflow.py. One genuine defect is an open known finding (F-C04-4, narrow signature); three were repaired by a fix: commit.",
   "deterministic simulation: seeded pass histories over junction-configuration swarm with injected non-reversal samples, independent periodic-rainflow oracle, known-finding classifier", "DESIGN.md 4.4"),
 "C05": check("C05", "exploration",
   "Independent scalar implementation of the guideline HCM stepped over the reversals of [0]+s+s with the same law object through its scalar interface; every column of recorder.collective and the visited strain values (all/first/second run) must agree (K1); 1-5 proportional points in one batched replica must equal their solo replicas row by row, using the batch law's own look-up table per node (K2); the replica fed -s must mirror (K3).",
   "Trusted: models/hcm_ref.py; the law's scalar interface. Benign junctions only for the two-pass modes (junctions are C04); mode K4 drives raw process(chunk) histories incl. checkpoints (deepcopy/pickle/fork) and compares batch, solo and reference. Floats to 1e-9 of the quantity's scale.",
   "deterministic simulation: reference-model oracle stepped pass by pass, lock-step solo replicas versus one batched replica, negated twin", "DESIGN.md 4.5"),
 "C13": check("C13", "exploration",
   "Histories of broadcasts over a pool of shared, aliased and re-entering pandas operands with a seeded uuid4 seam: after every step every pool object must be identical to its snapshot (values, index, level names incl. None, order, class), the returned pair must have identical index, every returned row must carry the original's value at the key restricted to the original's levels (NaN where absent) with no key lost or duplicated, and allowable-cycle calculations must equal the scalar formula. Coincidences are manufactured: equal key positions, shared index objects, placeholder-like level names, data columns labelled like a level of the other operand. Categorical level keys with per-operand category order.",
   "Trusted: the key-wise dictionary model in worlds/operands.py; pandas. Weakest fit of the family: there is no fault to inject, only histories, aliasing and coincidences between operands.",
   "deterministic simulation: seeded operation histories over an aliased operand pool with snapshot invariants after every step and a key-wise reference model", "DESIGN.md 4.6"),
}

def main():
    claimed = [CHECKS[k] for k in sorted(CHECKS)]
    ids = {c["property_id"] for c in claimed}
    man = {
      "version": 1,
      "setup_cmd": "./check setup",
      "hooks": {"guard": "PYLIFE_VERIF", "enable": "no source hooks: the simulator owns its seams (chunk delivery, h5py Group/AttributeManager methods, uuid.uuid4, VMAP metadata) by patching Python attributes inside the simulation process only; checks import pylife from /repo/src and rebuild the Cython kernel from the working tree",
                "baseline_off_cmd": "cd /repo && /venv/bin/python -m pytest -ra -q -p no:cacheprovider --timeout=900 --continue-on-collection-errors",
                "source_commits": [], "add_only": True},
      "engines": [{"name": "sim", "path": "sim/", "serves_properties": sorted(ids),
                   "kind_free_text": "own deterministic simulator: one PRNG per run derived from VERIF_SEED, explicit JSON traces (inputs, schedule, faults) replayed without PRNG, ddmin minimiser, fork pool runner with determinism self-tests"}],
      "checks": claimed,
      "not_applicable": [{"property_id": k, "reason": v} for k, v in sorted(NA.items())] +
                        [{"property_id": k, "reason": "check under construction in this session (world not yet committed); see DESIGN.md section 4"} for k in ["C04", "C05", "C13", "C20"] if k not in ids],
      "notes": "All checks: ./check run <id> --tier quick|thorough; exit 0 held / 1 VIOLATION / 2 HARNESS-ERROR (never reported as a violation). VERIF_SEED, VERIF_TIER, VERIF_JOBS, VERIF_RUNS, VERIF_BUDGET_S are honoured. Known findings: known_findings.json.",
    }
    with open(os.path.join(VERIF, "MANIFEST.json"), "w") as f:
        json.dump(man, f, indent=1)
        f.write("\n")

if __name__ == "__main__":
    main()

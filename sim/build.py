"""Make `import pylife` resolve to the *current working tree* and rebuild the
compiled rainflow kernel from the current extension.pyx.

VERIF_REPO_SRC overrides the source directory (mutant self-test only).
"""
import hashlib
import importlib.machinery
import importlib.util
import os
import subprocess
import sys
import sysconfig
import tempfile

VERIF = os.path.dirname(os.path.dirname(os.path.abspath(__file__)))
CACHE = os.path.join(VERIF, ".cache")


def repo_src():
    return os.path.abspath(os.environ.get("VERIF_REPO_SRC", "/repo/src"))


def _pyx_path():
    return os.path.join(repo_src(), "pylife", "stress", "rainflow", "extension.pyx")


def kernel_path(build=True):
    """Return the path of a .so built from the current extension.pyx."""
    with open(_pyx_path(), "rb") as f:
        src = f.read()
    import numpy, Cython
    key = hashlib.sha256(src + sys.version.encode() + numpy.__version__.encode()
                         + Cython.__version__.encode()).hexdigest()[:24]
    d = os.path.join(CACHE, "kernel-" + key)
    so = os.path.join(d, "rainflow_ext.so")
    if os.path.exists(so) or not build:
        return so
    os.makedirs(CACHE, exist_ok=True)
    tmp = tempfile.mkdtemp(prefix="build-", dir=CACHE)
    try:
        pyx = os.path.join(tmp, "rainflow_ext.pyx")
        with open(pyx, "wb") as f:
            f.write(src)
        subprocess.run([sys.executable, "-m", "cython", "-3", pyx], check=True,
                       stdout=subprocess.PIPE, stderr=subprocess.PIPE)
        inc = sysconfig.get_paths()["include"]
        subprocess.run(["gcc", "-O3", "-shared", "-fPIC", "-w", "-I", inc,
                        "-I", numpy.get_include(),
                        os.path.join(tmp, "rainflow_ext.c"), "-o",
                        os.path.join(tmp, "rainflow_ext.so")], check=True,
                       stdout=subprocess.PIPE, stderr=subprocess.PIPE)
        os.makedirs(d, exist_ok=True)
        os.replace(os.path.join(tmp, "rainflow_ext.so"), so)
    finally:
        import shutil
        shutil.rmtree(tmp, ignore_errors=True)
    return so


_done = False


def activate(need_kernel=True):
    """Put the working tree first on sys.path; install the freshly built kernel."""
    global _done
    if _done:
        return
    src = repo_src()
    if "pylife" in sys.modules:
        raise RuntimeError("pylife imported before sim.build.activate()")
    sys.path.insert(0, src)
    if need_kernel:
        so = kernel_path()
        loader = importlib.machinery.ExtensionFileLoader("pylife.rainflow_ext", so)
        spec = importlib.util.spec_from_file_location("pylife.rainflow_ext", so, loader=loader)
        mod = importlib.util.module_from_spec(spec)
        loader.exec_module(mod)
        sys.modules["pylife.rainflow_ext"] = mod
    import pylife
    if not os.path.abspath(pylife.__file__).startswith(src + os.sep):
        raise RuntimeError("pylife resolved to %s, not to %s" % (pylife.__file__, src))
    if need_kernel:
        pylife.rainflow_ext = sys.modules["pylife.rainflow_ext"]
    _done = True

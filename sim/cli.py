"""CLI / batch runner.

  check run <Cxx> [--tier quick|thorough] [--runs N] [--jobs J] [--budget S]
  check replay <file>
  check digest <Cxx> --runs i,j,k [--tier T]     (determinism self-test helper)
  check setup

exit 0 = held on everything explored (known findings are printed as
KNOWN-FINDING lines), 1 = VIOLATION, 2 = HARNESS-ERROR.
"""
import argparse
import faulthandler
import importlib
import json
import os
import subprocess
import sys
import time
import traceback

HERE = os.path.dirname(os.path.abspath(__file__))
VERIF = os.path.dirname(HERE)
if VERIF not in sys.path:
    sys.path.insert(0, VERIF)

from sim import core, build  # noqa: E402

WORLD_OF = {
    "C01": "stream", "C02": "stream", "C03": "stream",
    "C04": "hcm", "C05": "hcm",
    "C13": "operands",
    "C20": "vmapfs",
}

RUN_TIMEOUT_S = 400          # a single run may never take that long


def load_world(prop):
    build.activate(need_kernel=True)
    world = importlib.import_module("worlds." + WORLD_OF[prop])
    core.arm_canary(world)      # before any run and before the workers are forked
    return world


# --------------------------------------------------------------- workers

_W = {}


def _one(world, prop, master, tier, i):
    rng = core.rng_for(master, prop, i)
    trace = world.generate(prop, rng, tier)
    out = core.safe_execute(world, prop, trace)
    return trace, out


def _batch(args):
    prop, master, tier, idxs, want_traces = args
    world = _W["world"]
    faulthandler.dump_traceback_later(RUN_TIMEOUT_S * 2, exit=True)
    res = {"n": 0, "steps": 0, "counters": {}, "sigs": set(), "viol": [],
           "digests": {}, "samples": [], "errors": []}
    for i in idxs:
        faulthandler.cancel_dump_traceback_later()
        faulthandler.dump_traceback_later(RUN_TIMEOUT_S, exit=True)
        try:
            trace, out = _one(world, prop, master, tier, i)
        except Exception:
            res["errors"].append((i, traceback.format_exc()))
            continue
        res["n"] += 1
        res["steps"] += out.steps
        for k, v in out.counters.items():
            res["counters"][k] = res["counters"].get(k, 0) + v
        res["sigs"].update(out.sigs)
        res["digests"][i] = out.digest
        if out.violations:
            res["viol"].append((i, trace, out.violations))
            # runs whose violations all belong to a listed finding do not count towards the cap on collected violations
            # (otherwise an open finding that is hit often would end a thorough batch early)
            try:
                fnd = _W.get("findings") or []
                if fnd and all(core.match_finding(fnd, prop, world.classify(prop, trace, v)) is not None for v in out.violations):
                    res["known_only"] = res.get("known_only", 0) + 1
            except Exception:       # noqa - classification is repeated (guarded) in the parent
                pass
        if i in want_traces:
            res["samples"].append((i, trace))
    faulthandler.cancel_dump_traceback_later()
    return res


def _digest_runs(world, prop, master, tier, idxs):
    d = {}
    for i in idxs:
        _, out = _one(world, prop, master, tier, i)
        d[i] = out.digest
    return d


def _digest_task(args):
    prop, master, tier, idxs = args
    return _digest_runs(_W["world"], prop, master, tier, idxs)


# --------------------------------------------------------------- commands

def cmd_digest(a):
    world = load_world(a.prop)
    idxs = [int(x) for x in a.runs.split(",") if x]
    d = _digest_runs(world, a.prop, core.master_seed(), a.tier, idxs)
    print(json.dumps({str(k): v for k, v in d.items()}))
    return 0


def cmd_replay(a):
    with open(a.file) as f:
        rep = json.load(f)
    prop = rep["property"]
    world = load_world(prop)
    out = core.safe_execute(world, prop, rep["trace"])
    want = tuple(rep["violation_class"]) if rep.get("violation_class") else None
    hit = [v for v in out.violations if want is None or core.vclass(v) == want]
    print(json.dumps({"digest": out.digest, "violations": out.violations}, indent=1)[:6000])
    if hit:
        print("REPLAY-REPRODUCED property=%s class=%s" % (prop, "/".join(core.vclass(hit[0]))))
        return 1
    print("REPLAY-CLEAN property=%s" % prop)
    return 0


def _fresh_replay(path, hashseed):
    env = dict(os.environ)
    env["PYTHONHASHSEED"] = str(hashseed)
    p = subprocess.run([sys.executable, os.path.join(HERE, "cli.py"), "replay", path],
                       env=env, stdout=subprocess.PIPE, stderr=subprocess.PIPE, text=True,
                       timeout=600)
    return p.returncode == 1 and "REPLAY-REPRODUCED" in p.stdout, p.stdout[-2000:] + p.stderr[-2000:]


def cmd_run(a):
    t_start = time.monotonic()
    prop, tier = a.prop, a.tier
    master = core.master_seed()
    print("VERIF_SEED=%d property=%s tier=%s" % (master, prop, tier), flush=True)
    world = load_world(prop)
    _W["world"] = world
    _W["findings"] = core.load_findings()
    cfg = world.PROPS[prop][tier]
    n_runs = a.runs or int(os.environ.get("VERIF_RUNS", 0)) or cfg["runs"]
    budget = a.budget or float(os.environ.get("VERIF_BUDGET_S", 0)) or cfg["budget_s"]
    jobs = a.jobs or int(os.environ.get("VERIF_JOBS", 0)) or min(16, os.cpu_count() or 1)
    batch = cfg.get("batch", 25)
    n_samples = 3
    sample_idx = set(range(n_samples))

    import multiprocessing as mp
    from concurrent.futures import ProcessPoolExecutor, wait, FIRST_COMPLETED
    from concurrent.futures.process import BrokenProcessPool

    agg = {"n": 0, "steps": 0, "counters": {}, "sigs": set(), "viol": [],
           "digests": {}, "samples": [], "errors": []}
    harness_errors = []
    next_i = 0
    ctx = mp.get_context("fork")
    try:
        with ProcessPoolExecutor(max_workers=jobs, mp_context=ctx) as ex:
            pending = set()

            def submit():
                nonlocal next_i
                if next_i >= n_runs:
                    return False
                idxs = list(range(next_i, min(n_runs, next_i + batch)))
                next_i = idxs[-1] + 1
                pending.add(ex.submit(_batch, (prop, master, tier, idxs, sample_idx)))
                return True

            for _ in range(jobs * 2):
                if not submit():
                    break
            while pending:
                done, pending = wait(pending, return_when=FIRST_COMPLETED)
                for fut in done:
                    r = fut.result()
                    agg["n"] += r["n"]
                    agg["steps"] += r["steps"]
                    for k, v in r["counters"].items():
                        agg["counters"][k] = agg["counters"].get(k, 0) + v
                    agg["sigs"] |= r["sigs"]
                    agg["viol"] += r["viol"]
                    agg["known_only"] = agg.get("known_only", 0) + r.get("known_only", 0)
                    agg["digests"].update(r["digests"])
                    agg["samples"] += r["samples"]
                    agg["errors"] += r["errors"]
                    if time.monotonic() - t_start < budget and len(agg["viol"]) - agg.get("known_only", 0) < 400 and len(agg["viol"]) < 20000:
                        submit()
            # determinism self-test 1: same run again, in (generally) another worker
            done_idx = sorted(agg["digests"])
            k = cfg.get("det_pool", 16)
            step = max(1, len(done_idx) // k)
            det_idx = done_idx[::step][:k]
            det_pool_checked = 0
            if det_idx:
                parts = [det_idx[j::4] for j in range(4) if det_idx[j::4]]
                for d in ex.map(_digest_task, [(prop, master, tier, p) for p in parts]):
                    for i, dg in d.items():
                        det_pool_checked += 1
                        if dg != agg["digests"][i]:
                            harness_errors.append("nondeterministic run %d: %s vs %s (same process tree)"
                                                  % (i, agg["digests"][i], dg))
    except BrokenProcessPool:
        print("HARNESS-ERROR: a worker died or exceeded the per-run timeout", flush=True)
        return 2

    # determinism self-test 2: fresh interpreter, other PYTHONHASHSEED
    kf = cfg.get("det_fresh", 6)
    det_fresh_checked = 0
    if done_idx and kf:
        stepf = max(1, len(done_idx) // kf)
        fresh_idx = done_idx[::stepf][:kf]
        env = dict(os.environ)
        env["PYTHONHASHSEED"] = str(1 + (master % 1000))
        env["VERIF_SEED"] = str(master)
        p = subprocess.run([sys.executable, os.path.join(HERE, "cli.py"), "digest", prop,
                            "--tier", tier, "--runs", ",".join(map(str, fresh_idx))],
                           env=env, stdout=subprocess.PIPE, stderr=subprocess.PIPE, text=True,
                           timeout=900)
        if p.returncode != 0:
            harness_errors.append("fresh-interpreter digest run failed: " + p.stderr[-1500:])
        else:
            d = json.loads(p.stdout.strip().splitlines()[-1])
            for i in fresh_idx:
                det_fresh_checked += 1
                if d[str(i)] != agg["digests"][i]:
                    harness_errors.append("nondeterministic run %d across interpreters/PYTHONHASHSEED" % i)

    for i, tb in agg["errors"][:5]:
        harness_errors.append("run %d raised inside the harness:\n%s" % (i, tb))

    # ---------------------------------------------------------- violations
    findings = core.load_findings()
    _classify = world.classify

    def safe_classify(prop_, trace_, v_):
        try:
            return _classify(prop_, trace_, v_)
        except Exception:       # noqa - a classifier may never turn a violation into a harness error
            return "%s/%s" % (v_["oracle"], v_["component"])
    known_hits = {}     # finding id -> [count, witness run]
    unknown = {}        # class -> list of (i, trace, v)
    for i, trace, vs in sorted(agg["viol"], key=lambda x: x[0]):
        for v in vs:
            sig = safe_classify(prop, trace, v)
            f = core.match_finding(findings, prop, sig)
            if f is not None:
                e = known_hits.setdefault(f["id"], [0, i, f])
                e[0] += 1
            else:
                unknown.setdefault(core.vclass(v), []).append((i, trace, v))

    reported = []
    max_classes = 4
    for cls in sorted(unknown)[:max_classes]:
        cases = unknown[cls]
        # smallest trace first
        i, trace, v = min(cases, key=lambda c: (len(core.cjson(c[1])), c[0]))
        # the minimiser must not slide from an unlisted violation into a listed
        # finding of the same class (and hide the former behind the latter)
        def not_listed(tr, vv):
            return core.match_finding(findings, prop, safe_classify(prop, tr, vv)) is None
        mtrace, mv, tried = core.minimise(world, prop, trace, cls,
                                          budget=cfg.get("min_budget", 1500),
                                          time_budget=cfg.get("min_time_s", 60), accept=not_listed)
        if mv is None:
            harness_errors.append("violation of run %d (%s) did not reproduce in-process" % (i, cls))
            continue
        sig = safe_classify(prop, mtrace, mv)
        rep = {"property": prop, "violation_class": list(cls), "violation": mv,
               "signature": sig, "seed": master, "run": i,
               "run_seed": core.run_seed(master, prop, i),
               "minimiser_candidates_tried": tried, "original_trace_size": len(core.cjson(trace)),
               "trace": mtrace}
        rdir = os.environ.get("VERIF_REPLAY_DIR") or os.path.join(VERIF, "replays")
        os.makedirs(rdir, exist_ok=True)
        path = os.path.join(rdir, "%s-%s-%d-%d.json" % (
            prop, "-".join(cls).replace("/", "_").replace(" ", "_")[:60], master, i))
        with open(path, "w") as fh:
            fh.write(json.dumps(core._canon(rep), indent=1, sort_keys=True))
        ok, tail = _fresh_replay(path, 4242)
        if not ok:
            harness_errors.append("minimised witness %s did not reproduce in a fresh interpreter:\n%s"
                                  % (path, tail))
            continue
        reported.append((path, cls, mv, len(cases)))

    if a.dump_digests:
        with open(a.dump_digests, "w") as fh:
            json.dump({str(k): v for k, v in sorted(agg["digests"].items())}, fh)
    wall = time.monotonic() - t_start
    n_viol = len(reported)
    for fid, (cnt, i, f) in sorted(known_hits.items()):
        print("KNOWN-FINDING: property=%s %s [%s; hit by %d runs, e.g. run %d]"
              % (prop, f["what"], fid, cnt, i))
    for path, cls, mv, cnt in reported:
        print("VIOLATION property=%s replay=%s" % (prop, path))
        print("  class=%s runs=%d detail=%s" % ("/".join(cls), cnt, core.cjson(mv["detail"])[:600]))
    if len(unknown) > max_classes:
        print("  (+%d further violation classes not minimised)" % (len(unknown) - max_classes))

    # ---------------------------------------------------------- evidence
    desc = world.describe(prop)
    probes_zero = [p for p in desc.get("required_probes", []) if agg["counters"].get(p, 0) == 0]
    if tier == "thorough" and probes_zero and agg["n"] >= cfg["runs"] // 2:
        harness_errors.append("reach probes stuck at zero: %s" % probes_zero)
    ev = {
        "property_id": prop, "tier": tier, "seed": master, "level": desc["level"],
        "coverage": {
            "evaluations": agg["n"],
            "distinct_nontrivial": len(agg["sigs"]),
            "rule": desc["rule"],
            "samples": _samples(agg["samples"], n_samples),
            "runs_requested": n_runs,
            "runs_per_hour": int(agg["n"] / max(wall, 1e-9) * 3600),
            "logical_steps": agg["steps"],
            "simulated_time": "not applicable - no clock in the code under test; logical steps only",
            "fault_kinds_fired_and_probes": dict(sorted(agg["counters"].items())),
            "probes_at_zero": probes_zero,
            "determinism_selftest": {"same_seed_again_in_pool": det_pool_checked,
                                     "fresh_interpreter_other_hashseed": det_fresh_checked,
                                     "divergences": sum("nondeterministic" in e for e in harness_errors)},
            "components_real": desc["real"], "components_stub": desc["stub"],
            "known_findings_hit": {fid: e[0] for fid, e in known_hits.items()},
            "violation_classes_unlisted": len(unknown),
            "jobs": jobs, "exhaustive": False,
        },
        "assumptions": desc["assumptions"],
        "wall_s": round(wall, 2),
        "violations": n_viol,
    }
    for k, v in desc.get("extra_coverage", {}).items():
        ev["coverage"][k] = v
    edir = os.environ.get("VERIF_EVIDENCE_DIR") or os.path.join(VERIF, "evidence")
    os.makedirs(edir, exist_ok=True)
    with open(os.path.join(edir, prop + ".json"), "w") as fh:
        json.dump(ev, fh, indent=1, sort_keys=True)
    print("runs=%d steps=%d distinct=%d wall=%.1fs runs/h=%d known=%d violations=%d harness_errors=%d"
          % (agg["n"], agg["steps"], len(agg["sigs"]), wall, ev["coverage"]["runs_per_hour"],
             sum(e[0] for e in known_hits.values()), n_viol, len(harness_errors)), flush=True)
    if n_viol:
        for e in harness_errors[:10]:
            print("HARNESS-NOTE (next to the violations above): " + e)
        return 1
    if harness_errors:
        for e in harness_errors[:10]:
            print("HARNESS-ERROR: " + e)
        return 2
    if agg["n"] == 0:
        print("HARNESS-ERROR: no run executed")
        return 2
    return 0


def _samples(samples, n, limit=40000):
    """The first runs' traces, written out; at least one, more while the evidence file stays readable."""
    out, size = [], 0
    for i, tr in sorted(samples, key=lambda s: s[0])[:n]:
        c = core._canon(tr)
        size += len(core.cjson(c))
        if out and size > limit:
            break
        out.append({"run": i, "trace": c})
    return out


def cmd_setup(a):
    build.activate(need_kernel=True)
    import jsonschema
    with open(os.path.join(VERIF, "MANIFEST.json")) as f:
        man = json.load(f)
    with open("/root/.vp/MANIFEST.schema.json") as f:
        jsonschema.validate(man, json.load(f))
    print("setup ok: kernel at", build.kernel_path())
    return 0


def main(argv=None):
    ap = argparse.ArgumentParser()
    sub = ap.add_subparsers(dest="cmd", required=True)
    r = sub.add_parser("run")
    r.add_argument("prop")
    r.add_argument("--tier", default=os.environ.get("VERIF_TIER", "quick"), choices=["quick", "thorough"])
    r.add_argument("--runs", type=int, default=0)
    r.add_argument("--jobs", type=int, default=0)
    r.add_argument("--budget", type=float, default=0)
    r.add_argument("--dump-digests", default="")
    p = sub.add_parser("replay")
    p.add_argument("file")
    d = sub.add_parser("digest")
    d.add_argument("prop")
    d.add_argument("--runs", required=True)
    d.add_argument("--tier", default="quick")
    sub.add_parser("setup")
    a = ap.parse_args(argv)
    try:
        return {"run": cmd_run, "replay": cmd_replay, "digest": cmd_digest, "setup": cmd_setup}[a.cmd](a)
    except SystemExit:
        raise
    except Exception:
        traceback.print_exc()
        print("HARNESS-ERROR: %s" % sys.exc_info()[0].__name__)
        return 2


if __name__ == "__main__":
    sys.exit(main())

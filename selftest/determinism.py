"""Determinism proof on a large sample: every run digest must be a function of
(VERIF_SEED, property, run index) only - independent of the worker count, of
which worker executed the run, of PYTHONHASHSEED and of the interpreter.

  /venv/bin/python selftest/determinism.py [--runs N] [--seeds 1,2,3]
"""
import argparse, json, os, subprocess, sys, tempfile

VERIF = os.path.dirname(os.path.dirname(os.path.abspath(__file__)))
PROPS = {"C01": 3000, "C02": 3000, "C03": 3000, "C04": 600, "C05": 300, "C13": 800, "C20": 120}


def run(prop, seed, runs, jobs, hashseed, out):
    env = dict(os.environ)
    env.update({"VERIF_SEED": str(seed), "PYTHONHASHSEED": str(hashseed),
                "VERIF_EVIDENCE_DIR": os.path.dirname(out), "VERIF_REPLAY_DIR": os.path.dirname(out)})
    p = subprocess.run([os.path.join(VERIF, "check"), "run", prop, "--runs", str(runs), "--jobs", str(jobs),
                        "--budget", "3000", "--dump-digests", out], env=env, stdout=subprocess.PIPE, stderr=subprocess.STDOUT, text=True)
    if p.returncode not in (0, 1):
        print(p.stdout[-2000:])
        raise SystemExit("check failed with %d" % p.returncode)
    return json.load(open(out))


def main():
    ap = argparse.ArgumentParser()
    ap.add_argument("--scale", type=float, default=1.0)
    ap.add_argument("--seeds", default="1,2,3")
    ap.add_argument("--props", default=",".join(PROPS))
    a = ap.parse_args()
    bad = 0
    total = 0
    tmp = tempfile.mkdtemp(prefix="verif-det-", dir="/dev/shm" if os.path.isdir("/dev/shm") else None)
    try:
        for prop in a.props.split(","):
            n = max(20, int(PROPS[prop] * a.scale))
            for seed in [int(x) for x in a.seeds.split(",")]:
                ref = run(prop, seed, n, 16, 0, os.path.join(tmp, "a.json"))
                for jobs, hs in ((3, 77), (7, 12345)):
                    other = run(prop, seed, n, jobs, hs, os.path.join(tmp, "b.json"))
                    diff = [k for k in ref if other.get(k) != ref[k]]
                    total += len(ref)
                    if diff or len(other) != len(ref):
                        bad += 1
                        print("DIVERGENCE %s seed=%d jobs=%d hashseed=%d runs=%s" % (prop, seed, jobs, hs, diff[:10]))
                print("%s seed=%d: %d runs x 3 configurations identical" % (prop, seed, len(ref)), flush=True)
    finally:
        import shutil
        shutil.rmtree(tmp, ignore_errors=True)
    print("compared %d run digests, divergent configurations: %d" % (total, bad))
    return 1 if bad else 0


if __name__ == "__main__":
    sys.exit(main())

#!/bin/sh
# confirm a sub-agent's seeded defect in its scratch worktree and import it into /verif/seeded/
# usage: confirm_seed.sh <PROP> <a|b> "<test paths>"
P=$1; V=$2; TESTS=${3:-tests}
WT=${WTROOT:-/tmp/wt}-$P; S=${SEEDROOT:-/tmp/seed}-$P/$V
set -e
git -C $WT checkout -q -- . ; git -C $WT status --short | grep -v '^??' && { echo "worktree dirty"; exit 1; }
cd $WT
echo "== demo on clean tree"; PYTHONPATH=$WT/src timeout 600 /venv/bin/python $S/demo.py > /tmp/demo_clean_$P$V.log 2>&1 && echo "clean: exit 0" || { echo "clean: FAILS"; tail -5 /tmp/demo_clean_$P$V.log; }
git -C $WT apply --check $S/patch.diff
git -C $WT apply $S/patch.diff
if git -C $WT diff --name-only | grep -q extension.pyx; then (cd $WT && /venv/bin/python setup.py build_ext --inplace >/dev/null 2>&1; rm -rf build); fi
echo "== demo with change"; PYTHONPATH=$WT/src timeout 600 /venv/bin/python $S/demo.py > /tmp/demo_patched_$P$V.log 2>&1 && echo "patched: exit 0 (NOT FAILING)" || { echo "patched: fails as expected:"; tail -3 /tmp/demo_patched_$P$V.log | cut -c1-300; }
echo "== tests with change: $TESTS"; PYTHONPATH=$WT/src timeout 3000 /venv/bin/python -m pytest -q -p no:cacheprovider -n 8 $TESTS 2>&1 | grep -E "^FAILED|passed|failed" | tail -12
git -C $WT checkout -q -- .
if [ -n "$(git -C $WT diff --name-only)" ]; then echo dirty; fi
(cd $WT && git diff --quiet) && echo "worktree restored"

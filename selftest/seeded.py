"""Run the registered checks against the seeded defects kept under /verif/seeded/.

  /venv/bin/python selftest/seeded.py [--only id,id] [--tier quick] [--all-props]

For each seeded/<id>/patch.diff a scratch copy of /repo/src (outside /repo and
/verif) is patched and the check of the property named in meta.json is pointed
at it (VERIF_REPO_SRC).  Expected: exit 1 with a VIOLATION line.  /repo itself
is never modified.
"""
import argparse
import json
import os
import shutil
import subprocess
import sys
import tempfile
import time

VERIF = os.path.dirname(os.path.dirname(os.path.abspath(__file__)))


def run_one(sid, tier, runs, props=None):
    d = os.path.join(VERIF, "seeded", sid)
    meta = json.load(open(os.path.join(d, "meta.json")))
    tmp = tempfile.mkdtemp(prefix="verif-seed-", dir="/dev/shm" if os.path.isdir("/dev/shm") else None)
    res = []
    try:
        shutil.copytree("/repo/src", os.path.join(tmp, "src"),
                        ignore=shutil.ignore_patterns("__pycache__", "*.so", "*.c", "*.egg-info"))
        p = subprocess.run(["patch", "-p1", "-s", "-i", os.path.join(d, "patch.diff")], cwd=tmp,
                           stdout=subprocess.PIPE, stderr=subprocess.STDOUT, text=True)
        if p.returncode != 0:
            return [(sid, meta["property"], "PATCH-FAILED " + p.stdout[-300:], 0.0)]
        for prop in (props or [meta["property"]]):
            env = dict(os.environ)
            env["VERIF_REPO_SRC"] = os.path.join(tmp, "src")
            env["VERIF_EVIDENCE_DIR"] = os.path.join(tmp, "evidence")
            env["VERIF_REPLAY_DIR"] = os.path.join(tmp, "replays")
            cmd = [os.path.join(VERIF, "check"), "run", prop, "--tier", tier]
            if runs:
                cmd += ["--runs", str(runs)]
            t0 = time.time()
            r = subprocess.run(cmd, env=env, stdout=subprocess.PIPE, stderr=subprocess.STDOUT, text=True)
            dt = time.time() - t0
            lines = [l.strip() for l in r.stdout.splitlines() if l.startswith(("VIOLATION", "  class", "HARNESS"))]
            verdict = {0: "MISSED", 1: "CAUGHT", 2: "HARNESS-ERROR"}.get(r.returncode, "exit %d" % r.returncode)
            res.append((sid, prop, verdict + " | " + " ; ".join(x[:300] for x in lines[:2]), dt))
    finally:
        shutil.rmtree(tmp, ignore_errors=True)
    return res


def main():
    ap = argparse.ArgumentParser()
    ap.add_argument("--only", default="")
    ap.add_argument("--tier", default="quick")
    ap.add_argument("--runs", type=int, default=0)
    ap.add_argument("--all-props", action="store_true")
    a = ap.parse_args()
    only = set(x for x in a.only.split(",") if x)
    ids = sorted(x for x in os.listdir(os.path.join(VERIF, "seeded")) if os.path.exists(os.path.join(VERIF, "seeded", x, "patch.diff")))
    bad = 0
    for sid in ids:
        if only and sid not in only:
            continue
        meta = json.load(open(os.path.join(VERIF, "seeded", sid, "meta.json")))
        if meta.get("status") == "neutralised":
            # the change no longer breaks the property on the current tree (its demo passes): a "fix:" commit
            # removed the defect it relied on; kept for the record, nothing to catch
            print("%-28s %s        NEUTRALISED | %s" % (sid, meta["property"], meta.get("status_note", "")[:200]), flush=True)
            continue
        tier = meta.get("tier", a.tier)
        props = None
        if a.all_props:
            # the checks that drive the code the seed touches (same world)
            own = json.load(open(os.path.join(VERIF, "seeded", sid, "meta.json")))["property"]
            props = next(g for g in (["C01", "C02", "C03"], ["C04", "C05"], ["C13"], ["C20"]) if own in g)
        for sid_, prop, verdict, dt in run_one(sid, tier, a.runs or meta.get("runs", 0), props):
            print("%-28s %s %6.1fs %s" % (sid_, prop, dt, verdict), flush=True)
            if not a.all_props and not verdict.startswith("CAUGHT"):
                bad += 1
    return 1 if bad else 0


if __name__ == "__main__":
    sys.exit(main())

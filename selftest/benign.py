"""False-alarm self-test: semantics-preserving refactorings of pyLife (renamed private attributes,
other dtypes/containers for the same numbers, another order or number of storage calls, extra columns)
applied to a scratch copy; every check must still exit 0.

  /venv/bin/python selftest/benign.py [--only id,id] [--runs N]
"""
import argparse, os, shutil, subprocess, sys, tempfile, time

VERIF = os.path.dirname(os.path.dirname(os.path.abspath(__file__)))
R = "pylife/stress/rainflow/"
V = "pylife/vmap/"

# id, properties to run, [(file, old, new, count)]
BENIGN = [
    ("tail-copy", ["C01", "C02", "C03"], [(R + "general.py",
      "self._sample_tail = samples_with_last_tail[sample_tail_index:]",
      "self._sample_tail = samples_with_last_tail[sample_tail_index:].copy()", 1)]),
    ("residual-index-int", ["C01", "C02", "C03"], [(R + "general.py",
      "return np.append(self._residual_index, self._head_index - 1)",
      "return np.append(self._residual_index, self._head_index - 1).astype(np.int64)", 1)]),
    ("rename-sample-tail", ["C01", "C02", "C03", "C04", "C05"], [(R + "general.py", "_sample_tail", "_pending_samples", -1)]),
    ("fkm-residuals-copy-on-read", ["C01", "C02", "C03"], [(R + "fkm.py",
      "        self._recorder.record_values(from_vals, to_vals)\n",
      "        self._recorder.record_values(list(from_vals), list(to_vals))\n", 1)]),
    ("recorder-extra-column", ["C04", "C05"], [(R + "recorders.py",
      '                    "run_index": np.array(self._run_index, dtype=np.int64),\n                    "debug_output": self._debug_output, # FIXME .values,',
      '                    "run_index": np.array(self._run_index, dtype=np.int64),\n                    "n_rows": len(self._run_index),\n                    "debug_output": self._debug_output, # FIXME .values,', 1)]),
    ("hcm-no-message-log", ["C04", "C05"], [(R + "fkm_nonlinear.py",
      '        self._hcm_message += f"turning points: {samples}\\n"', '        pass', 1)]),
    ("hcm-strain-values-list", ["C05"], [(R + "fkm_nonlinear.py",
      "        return np.array(self._strain_values)\n", "        return list(self._strain_values)\n", 1)]),
    ("vmap-import-rename-file", ["C20"], [(V + "vmap_import.py", "self._file", "self._h5", -1)]),
    ("vmap-extra-attribute", ["C20"], [(V + "vmap_export.py",
      "        geometry = self._create_group_with_attributes(geometry_group, geometry_name)\n",
      "        geometry = self._create_group_with_attributes(geometry_group, geometry_name, VMAPAttribute('MYCOMMENT', b'pylife'))\n", 1)]),
    ("vmap-elements-before-points", ["C20"], [(V + "vmap_export.py",
      "                self._create_points_datasets(geometry, mesh)\n                self._create_elements_dataset(geometry, mesh)\n",
      "                self._dimension = 3 if ('z' in mesh and not (mesh['z'].to_numpy()[0] == mesh['z'].to_numpy()).all()) else 2\n                self._create_elements_dataset(geometry, mesh)\n                self._create_points_datasets(geometry, mesh)\n", 1)]),
    ("vmap-setname-fixed-length", ["C20"], [(V + "vmap_export.py",
      "VMAPAttribute('MYSETNAME', str.encode(name, 'UTF-8')),", "VMAPAttribute('MYSETNAME', np.bytes_(str.encode(name, 'UTF-8')) if name else str.encode(name, 'UTF-8')),", 1)]),
    ("broadcaster-two-uuids", ["C13"], [("pylife/core/broadcaster.py",
      "        this_uuid = uuid.uuid4().hex\n", "        uuid.uuid4()\n        this_uuid = 'lvl-' + uuid.uuid4().hex\n", 1)]),
    ("broadcaster-rename-cache", ["C13"], [("pylife/core/broadcaster.py", "index_levels", "level_values", -1)]),
    ("broadcast-scalar-returns-copy", ["C13"], [("pylife/core/broadcaster.py",
      "        return pd.Series(parameter, index=self._obj.index), self._obj\n",
      "        return pd.Series(parameter, index=self._obj.index), self._obj.copy()\n", 1)]),
    ("vmap-default-names-copied", ["C20"], [(V + "vmap_import.py",
      "                column_names = vmap_structures.column_names[var_name][0]\n",
      "                column_names = list(vmap_structures.column_names[var_name][0])\n", 1)]),
    ("woehler-k-float32-free", ["C13"], [("pylife/materiallaws/woehlercurve.py",
      "        cycles = np.full_like(ld, np.inf)\n", "        cycles = np.full(np.shape(ld), np.inf, dtype=np.float64)\n", 1)]),
]


def run_one(b, runs):
    bid, props, edits = b
    tmp = tempfile.mkdtemp(prefix="verif-benign-", dir="/dev/shm" if os.path.isdir("/dev/shm") else None)
    out = []
    try:
        src = os.path.join(tmp, "src")
        shutil.copytree("/repo/src", src, ignore=shutil.ignore_patterns("__pycache__", "*.so", "*.c", "*.egg-info"))
        for rel, old, new, count in edits:
            p = os.path.join(src, rel)
            s = open(p).read()
            if (count > 0 and s.count(old) != count) or (count < 0 and s.count(old) == 0):
                return [(bid, "-", "PATCH-FAILED (%d occurrences of %r)" % (s.count(old), old[:40]), 0.0)]
            open(p, "w").write(s.replace(old, new))
        for prop in props:
            env = dict(os.environ)
            env.update({"VERIF_REPO_SRC": src, "VERIF_EVIDENCE_DIR": os.path.join(tmp, "e"), "VERIF_REPLAY_DIR": os.path.join(tmp, "r")})
            cmd = [os.path.join(VERIF, "check"), "run", prop]
            if runs:
                cmd += ["--runs", str(runs)]
            t0 = time.time()
            r = subprocess.run(cmd, env=env, stdout=subprocess.PIPE, stderr=subprocess.STDOUT, text=True)
            lines = [l.strip() for l in r.stdout.splitlines() if l.startswith(("VIOLATION", "  class", "HARNESS"))]
            verdict = {0: "QUIET (ok)", 1: "FALSE ALARM", 2: "HARNESS-ERROR"}.get(r.returncode, "exit %d" % r.returncode)
            out.append((bid, prop, verdict + " " + " ; ".join(x[:260] for x in lines[:2]), time.time() - t0))
    finally:
        shutil.rmtree(tmp, ignore_errors=True)
    return out


def main():
    ap = argparse.ArgumentParser()
    ap.add_argument("--only", default="")
    ap.add_argument("--runs", type=int, default=0)
    a = ap.parse_args()
    only = set(x for x in a.only.split(",") if x)
    bad = 0
    for b in BENIGN:
        if only and b[0] not in only:
            continue
        for bid, prop, verdict, dt in run_one(b, a.runs):
            print("%-30s %s %6.1fs %s" % (bid, prop, dt, verdict), flush=True)
            if not verdict.startswith("QUIET"):
                bad += 1
    return 1 if bad else 0


if __name__ == "__main__":
    sys.exit(main())

#!/bin/sh
# quick tier of every check under several VERIF_SEED values on the unchanged tree: all must exit 0
cd "$(dirname "$0")/.."
T=$(mktemp -d /dev/shm/verif-sweep-XXXX)
for s in ${SEEDS:-2 3 5 7 11 13 17 19}; do
  for p in C01 C02 C03 C04 C05 C13 C20; do
    VERIF_SEED=$s VERIF_EVIDENCE_DIR=$T/e VERIF_REPLAY_DIR=$T/r ./check run $p --tier quick > $T/out 2>&1
    rc=$?
    echo "seed=$s $p exit=$rc $(grep -E '^runs=' $T/out | cut -c1-120)"
    if [ $rc -ne 0 ]; then grep -E "VIOLATION|HARNESS|class=" $T/out | cut -c1-400; cp -r $T/r /tmp/sweep-replays-$s-$p 2>/dev/null; fi
  done
done
rm -rf $T

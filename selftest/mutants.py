"""Sensitivity self-test: break a property on purpose in a scratch copy of
/repo/src (outside /repo and /verif), point the check at it, expect exit 1.

  /venv/bin/python selftest/mutants.py [--only ID,ID] [--prop Cxx] [--runs N]

Each mutant is a literal text replacement (old must occur exactly `count`
times).  Nothing here touches /repo.
"""
import argparse
import os
import shutil
import subprocess
import sys
import tempfile
import time

VERIF = os.path.dirname(os.path.dirname(os.path.abspath(__file__)))
R = "pylife/stress/rainflow/"
V = "pylife/vmap/"

MUTANTS = [
    # ---- C01: carry-over between chunks
    ("c01-tail-last-only", "C01", R + "general.py",
     "self._sample_tail = samples_with_last_tail[sample_tail_index:]",
     "self._sample_tail = samples_with_last_tail[-1:]"),
    ("c01-head-index-off", "C01", R + "general.py",
     "        turn_index += self._head_index - len(self._sample_tail)\n",
     "        turn_index += self._head_index - max(len(self._sample_tail) - (len(self._sample_tail) > 3), 0)\n"),
    ("c01-searchsorted-left", "C01", R + "general.py",
     "side='right') - 1", "side='left') - 1"),
    ("c01-residual-index-short", "C01", R + "fourpoint.py",
     "self._residual_index = turns_index[residual_index[:-1]]",
     "self._residual_index = turns_index[residual_index[:-1]] if len(residual_index) < 6 else np.concatenate((turns_index[residual_index[:-2]], turns_index[residual_index[-3:-2]]))"),
    ("c01-fkm-maxturn-not-persisted", "C01", R + "fkm.py",
     "            self._max_turn = max_turn\n", "            pass\n"),
    ("c01-fkm-ir-not-persisted", "C01", R + "fkm.py",
     "            self._ir = ir\n", "            self._ir = min(ir, 3)\n"),
    ("c01-tp-front-recomputed", "C01", R + "threepoint.py",
     "highest_front = np.argmax(residuals)", "highest_front = np.argmax(residuals[-3:]) + max(len(residuals) - 3, 0)"),
    ("c01-fkm-module-level-residuals", "C01", R + "fkm.py",
     "        self._residuals = []\n        self._max_turn = 0.0", "        self._residuals = globals().setdefault('_leak', [])\n        self._max_turn = 0.0"),
    # ---- C02: counting rule
    ("c02-fourpoint-strict", "C02", R + "extension.pyx",
     "if (b > c and c >= a and d >= b) or (b < c and c <= a and d <= b):",
     "if (b > c and c > a and d >= b) or (b < c and c < a and d <= b):"),
    ("c02-threepoint-no-front-guard", "C02", R + "extension.pyx",
     "elif (start >= _max(lowest_front, highest_front) and",
     "elif (start >= 0 and"),
    ("c02-fkm-close-strict", "C02", R + "fkm.py",
     "if (last0 > last1 and current <= last1) or (last0 < last1 and current >= last1):",
     "if (last0 > last1 and current < last1) or (last0 < last1 and current > last1):"),
    ("c02-revert-underflow", "C02", R + "general.py",
     "    peak_turns = changes_direction(diffs[:-1], diffs[1:])\n", "    peak_turns = diffs[:-1] * diffs[1:] < 0.0\n"),
    ("c02-plateau-last-sample", "C02", R + "general.py",
     "plateau_turns[dups_starts[np.where(changes_direction(diffs[dups_starts], diffs[dups_ends+1]))]] = True",
     "plateau_turns[dups_ends[np.where(changes_direction(diffs[dups_starts], diffs[dups_ends+1]))]] = True"),
    # ---- C03: symmetries
    ("c03-nan-index-gt", "C03", R + "general.py",
     "index[index >= nan_pos] += 1", "index[index > nan_pos] += 1"),
    ("c03-peak-le", "C03", R + "general.py",
     "    peak_turns = changes_direction(diffs[:-1], diffs[1:])\n", "    peak_turns = changes_direction(diffs[:-1], diffs[1:]) | np.asarray(diffs[:-1] == 0)\n"),
    ("c03-fkm-signed-max", "C03", R + "fkm.py",
     "if np.abs(current) > max_turn:", "if current > max_turn:"),
    # ---- C20: VMAP round trip and roll-back
    ("c20-no-geometry-rollback", "C20", V + "vmap_export.py",
     "                del geometry_group[geometry_name]\n", "                pass\n"),
    ("c20-groupby-unsorted", "C20", V + "vmap_export.py",
     "element_connectivities = mesh.groupby('element_id')", "element_connectivities = mesh.groupby('element_id', sort=False)"),
    ("c20-connectivity-sorted", "C20", V + "vmap_export.py",
     "c = element_connectivity[1].index.get_level_values('node_id').values",
     "c = np.sort(element_connectivity[1].index.get_level_values('node_id').values)"),
    # (c20-elnodal-ids-sorted was removed: since fix 36d3bea ids and values are brought into the same
    #  element order, so writing the ids sorted is an equivalent change)
    ("c20-import-sorts-nodes", "C20", V + "vmap_import.py",
     "index_np[1, i:i_next] = node_ids", "index_np[1, i:i_next] = np.sort(node_ids)"),
    ("c20-ids-int16", "C20", V + "vmap_export.py",
     "points_group.create_dataset('MYIDENTIFIERS', data=np.reshape(node_ids_info.index, (-1, 1)), dtype=np.int32,",
     "points_group.create_dataset('MYIDENTIFIERS', data=np.reshape(node_ids_info.index, (-1, 1)), dtype=np.float32,"),
    # regressions of the fix: commits
    ("c20-revert-2d-noz", "C20", V + "vmap_import.py",
     "columns = ['x', 'y', 'z'][:coordinates.shape[1]],", "columns = ['x', 'y', 'z'],"),
    ("c20-revert-setname", "C20", V + "vmap_import.py",
     "        if isinstance(set_name, bytes):\n", "        if True:\n"),
    ("c20-revert-mixed", "C20", V + "vmap_export.py",
     "material_type, section_type, node_ids_list))], dtype=dt_type).T",
     "material_type, section_type, np.asarray(node_ids_list)))], dtype=dt_type).T"),
    ("c20-revert-dimension", "C20", V + "vmap_export.py",
     "        self._dimension = 2\n        if 'z' in node_ids_info:", "        if 'z' in node_ids_info:"),
    ("c20-revert-atomic-group", "C20", V + "vmap_export.py",
     "            if group_name in parent_group:\n                del parent_group[group_name]\n            raise",
     "            raise"),
    ("c20-revert-created-groups-removed", "C20", V + "vmap_export.py",
     "                for parent_group, group_name in reversed(created_groups):\n                    if group_name in parent_group:\n                        del parent_group[group_name]\n                raise",
     "                raise"),
    ("c20-revert-interleaved-rows", "C20", V + "vmap_export.py",
     "data=mesh[column_names].iloc[block_order], chunks=True)", "data=mesh[column_names], chunks=True)"),
    ("c20-revert-counter-rollback", "C20", V + "vmap_export.py",
     "            geometry_group.attrs['MYSIZE'] = variable_count\n", ""),
    # ---- C04: junction of the HCM passes
    ("c04-second-pass-always-flush", "C04", R + "fkm_nonlinear.py",
     "        return self.process(samples, flush=flush)\n\n    def process(self, samples, flush=False):",
     "        return self.process(samples, flush=True)\n\n    def process(self, samples, flush=False):"),
    ("c04-second-pass-never-flush", "C04", R + "fkm_nonlinear.py",
     "        return self.process(samples, flush=flush)\n\n    def process(self, samples, flush=False):",
     "        return self.process(samples, flush=False)\n\n    def process(self, samples, flush=False):"),
    ("c04-first-pass-zero-junction-only", "C04", R + "fkm_nonlinear.py",
     "            and self._is_last_sample_a_turn(scalar_samples, scalar_samples[1:])\n", ""),
    ("c04-close-strict", "C04", R + "fkm_nonlinear.py",
     "if current_load_extent < previous_load_extent-1e-12:", "if current_load_extent <= previous_load_extent+1e-12:"),
    ("c04-loadmax-not-carried", "C04", R + "fkm_nonlinear.py",
     "        largest_point = self._HCM_Point(load=0)\n",
     "        largest_point = self._HCM_Point(load=0)\n        if self._run_index >= 1:\n            self._load_max_seen = 0.0\n"),
    ("c05-memory3-closed", "C05", R + "fkm_nonlinear.py",
     "        _is_closed_hysteresis.append(False)             # the hysteresis is not fully closed",
     "        _is_closed_hysteresis.append(True)             # the hysteresis is not fully closed"),
    ("c04-revert-named-series", "C04", R + "fkm_nonlinear.py",
     '.set_index(["load_step", "node_id"]).iloc[:, 0]', '.set_index(["load_step", "node_id"])[0]'),
    ("c04-plateau-not-looked-through", "C04", R + "fkm_nonlinear.py",
     "        different_before = np.flatnonzero(samples != last)\n",
     "        different_before = np.flatnonzero(samples != last)\n        if len(samples) > 1 and samples[-2] == last:\n            return False\n"),
    # ---- C05: stress-strain bookkeeping
    ("c05-memory3-flipped-from-current", "C05", R + "fkm_nonlinear.py",
     "        _S_min = pd.concat([_S_min, -abs(previous_point.stress)])", "        _S_min = pd.concat([_S_min, -abs(current_point.stress)])"),
    ("c05-eps-min-updated-when-rising", "C05", R + "fkm_nonlinear.py",
     "        if previous_load < current_load_representative-1e-12:", "        if previous_load > current_load_representative-1e-12:"),
    ("c05-secondary-from-older-point", "C05", R + "fkm_nonlinear.py",
     "        current_point = self._proceed_on_secondary_branch(previous_point_1, current_point)",
     "        current_point = self._proceed_on_secondary_branch(previous_point_0 if len(self._residuals) > 4 else previous_point_1, current_point)"),
    ("c05-memory1-stays-secondary", "C05", R + "fkm_nonlinear.py",
     "            # Proceed on primary path for the rest, which was not part of the closed hysteresis\n            current_point = self._proceed_on_primary_branch(current_point)",
     "            # Proceed on primary path for the rest, which was not part of the closed hysteresis\n            current_point = self._proceed_on_secondary_branch(previous_point_0, current_point)"),
    ("c05-flags-wrong-m", "C05", R + "recorders.py",
     "        numeric_array = np.array(boolean_array).reshape(-1,1).dot(np.ones((1,m))).flatten()\n",
     "        numeric_array = np.roll(np.array(boolean_array).reshape(-1,1).dot(np.ones((1,m))).flatten(), 1 if m > 2 else 0)\n"),
    # (c05-mean-stress-not-zeroed was removed: Memory-3 rows are symmetric, so their mean is zero anyway - equivalent)
    ("c05-revert-lf-per-node", "C05", R + "fkm_nonlinear.py",
     "            new_val = np.maximum(self._epsilon_max_LF.values, current_point.strain.values)",
     "            new_val = self._epsilon_max_LF.values if self._epsilon_max_LF.values[0] > current_point.strain.values[0] else current_point.strain.values"),
    ("c05-revert-law-node-order", "C05", "pylife/materiallaws/notch_approximation_law.py",
     "        return values_of_class.droplevel(\"class_index\").reindex(node_ids)\n", "        return values_of_class\n"),
    ("c05-strain-first-run-count", "C05", R + "fkm_nonlinear.py",
     "        # count number of strain values in the first run of the HCM algorithm\n        if self._run_index == 1:\n            self._n_strain_values_first_run += 1\n        return current_point\n\n    def _handle_case_b",
     "        return current_point\n\n    def _handle_case_b"),
    # ---- C13: broadcaster
    ("c13-no-restore-parameter", "C13", "pylife/core/broadcaster.py",
     "            parameter.index = original_parameter_index\n", "            pass\n"),
    ("c13-none-names-not-restored", "C13", "pylife/core/broadcaster.py",
     "            _replace_unique_string_with_none_name([self._obj, parameter], uuids)\n",
     "            _replace_unique_string_with_none_name([parameter], uuids)\n"),
    ("c13-restore-wrong-level", "C13", "pylife/core/broadcaster.py",
     "                    self.index_levels[name][new_index.get_level_values(name) - self._code_offsets[name]]\n                    for name in new_index.names",
     "                    self.index_levels[name][new_index.get_level_values(name) - self._code_offsets[name]]\n                    for name in sorted(new_index.names, key=str)"),
    ("c13-revert-code-offsets", "C13", "pylife/core/broadcaster.py",
     "            offset += len(level)\n", "            offset += 0\n"),
    ("c13-revert-array-keys", "C13", "pylife/core/broadcaster.py",
     "        data = np.tile(self._obj.to_numpy(), (len(parameter), 1))\n        df = pd.DataFrame(data, columns=self._obj.index)\n",
     "        data = np.empty((len(parameter), len(self._obj)))\n        df = pd.DataFrame(data, columns=self._obj.index).assign(**self._obj)\n"),
    ("c13-cross-join-drops-row", "C13", "pylife/core/broadcaster.py",
     "            obj, prm = obj.align(prm, axis=0)\n\n            if len(droplevel) > 0:",
     "            obj, prm = obj.iloc[:-1].align(prm.iloc[:-1], axis=0) if len(obj) > 7 else obj.align(prm, axis=0)\n\n            if len(droplevel) > 0:"),
    ("c13-revert-make-k-float", "C13", "pylife/materiallaws/woehlercurve.py",
     "        k = np.asarray(wc.k_1, dtype=np.float64).copy()", "        k = np.asarray(wc.k_1).copy()"),
    ("c13-scalar-returns-none", "C13", "pylife/core/broadcaster.py",
     "        if prm.shape == ():\n            return prm, self._obj", "        if prm.shape == ():\n            return prm, None"),
    ("c13-revert-haigh-order", "C13", "pylife/strength/meanstress.py",
     "        meanstress[self._R_index.left >= 1.0] = -np.inf\n", "        meanstress[starts_at_minus_inf] = -1.0\n        meanstress[self._R_index.left >= 1.0] = -1.0\n"),
    ("c13-revert-restore-in-finally", "C13", "pylife/core/broadcaster.py",
     "        finally:\n            self._obj.index = original_obj_index\n            parameter.index = original_parameter_index\n            _replace_unique_string_with_none_name([self._obj, parameter], uuids)\n",
     "        finally:\n            pass\n        self._obj.index = original_obj_index\n        parameter.index = original_parameter_index\n        _replace_unique_string_with_none_name([self._obj, parameter], uuids)\n"),
    ("c02-revert-exact-closure-4pt", "C02", "pylife/stress/rainflow/extension.pyx",
     "        if (b > c and c >= a and d >= b) or (b < c and c <= a and d <= b):\n",
     "        if fabs(b - c) <= fabs(a - b) and fabs(b - c) <= fabs(c - d):\n"),
    ("c02-revert-exact-closure-3pt", "C02", "pylife/stress/rainflow/extension.pyx",
     "                  ((front_val > start_val and back_val <= start_val) or\n                   (front_val < start_val and back_val >= start_val))):\n",
     "                  fabs(back_val - front_val) >= fabs(front_val - start_val)):\n"),
    ("c02-revert-exact-closure-fkm", "C02", "pylife/stress/rainflow/fkm.py",
     "                    if (last0 > last1 and current <= last1) or (last0 < last1 and current >= last1):\n",
     "                    if np.abs(current-last0) >= np.abs(last0-last1):\n"),
    ("c04-revert-multipoint-upcast", "C04", "pylife/stress/rainflow/fkm_nonlinear.py",
     "            samples = samples.astype(np.float64)\n", "            pass\n"),
    ("c05-revert-first-load-step", "C05", "pylife/stress/rainflow/fkm_nonlinear.py",
     "                first_sample = samples[load_steps == load_steps[0]].reset_index(drop=True)\n",
     "                first_sample = samples[load_steps == 0].reset_index(drop=True)\n"),
    ("c13-revert-one-level-multiindex", "C13", "pylife/core/broadcaster.py",
     "            name = index.names[0]  # `index.name` is None for a MultiIndex with a single level\n", "            name = index.name\n"),
    ("c13-revert-sd-zero-shapes", "C13", "pylife/materiallaws/woehlercurve.py",
     "        ND[has_SD] *= np.power(SD[has_SD]/obj_SD[has_SD], -obj_k_1[has_SD])\n",
     "        ND[has_SD] *= np.power(SD[has_SD]/obj.SD, -obj.k_1)\n"),
    ("c13-revert-collective-copy", "C13", "pylife/stress/collective/load_collective.py",
     "        diffs, obj = self.broadcast(diffs)\n        obj = obj.copy()  # for a scalar the broadcast hands back the collective itself\n",
     "        diffs, obj = self.broadcast(diffs)\n"),
    ("c13-revert-unsigned-cycles", "C13", "pylife/materiallaws/woehlercurve.py",
     "        cycles = ensure_float_to_prevent_unsigned_wraparound(cycles)\n", ""),
    ("c13-wc-k-below-limit", "C13", "pylife/materiallaws/woehlercurve.py",
     "        below_limit = np.asarray(src < ref)", "        below_limit = np.asarray(src <= ref)"),
]


def run_mutant(m, runs, keep=False):
    mid, prop, rel, old, new = m
    tmp = tempfile.mkdtemp(prefix="verif-mut-", dir="/dev/shm" if os.path.isdir("/dev/shm") else None)
    try:
        src = os.path.join(tmp, "src")
        shutil.copytree(os.path.join(os.environ.get("VERIF_MUT_BASE", "/repo/src")), src,
                        ignore=shutil.ignore_patterns("__pycache__", "*.so", "*.c", "*.egg-info"))
        p = os.path.join(src, rel)
        s = open(p).read()
        if s.count(old) != 1:
            return mid, prop, "PATCH-FAILED (%d occurrences)" % s.count(old), 0.0
        open(p, "w").write(s.replace(old, new))
        env = dict(os.environ)
        env["VERIF_REPO_SRC"] = src
        env["VERIF_EVIDENCE_DIR"] = os.path.join(tmp, "evidence")
        env["VERIF_REPLAY_DIR"] = os.path.join(tmp, "replays")
        t0 = time.time()
        cmd = [os.path.join(VERIF, "check"), "run", prop]
        if runs:
            cmd += ["--runs", str(runs)]
        r = subprocess.run(cmd, env=env, stdout=subprocess.PIPE, stderr=subprocess.STDOUT, text=True)
        dt = time.time() - t0
        lines = [l for l in r.stdout.splitlines() if l.startswith(("VIOLATION", "  class", "HARNESS", "KNOWN"))]
        verdict = {0: "MISSED", 1: "CAUGHT", 2: "HARNESS-ERROR"}.get(r.returncode, "exit %d" % r.returncode)
        return mid, prop, verdict + " | " + " ; ".join(l.strip()[:260] for l in lines[:3]), dt
    finally:
        if not keep:
            shutil.rmtree(tmp, ignore_errors=True)


def main():
    ap = argparse.ArgumentParser()
    ap.add_argument("--only", default="")
    ap.add_argument("--prop", default="")
    ap.add_argument("--runs", type=int, default=0)
    a = ap.parse_args()
    only = set(x for x in a.only.split(",") if x)
    missed = 0
    for m in MUTANTS:
        if only and m[0] not in only:
            continue
        if a.prop and m[1] != a.prop:
            continue
        mid, prop, verdict, dt = run_mutant(m, a.runs)
        print("%-34s %s %6.1fs %s" % (mid, prop, dt, verdict), flush=True)
        if not verdict.startswith("CAUGHT"):
            missed += 1
    return 1 if missed else 0


if __name__ == "__main__":
    sys.exit(main())

"""import_seed.py <PROP> <a|b> "<needs>" "<what I ran>"  - copies /tmp/seed-<PROP>/<v>/ into /verif/seeded/<prop>-<v>/"""
import json, os, shutil, sys
P, V, needs, ran = sys.argv[1:5]
root = os.environ.get("SEEDROOT", "/tmp/seed")
src = "%s-%s/%s" % (root, P, V)
name = os.environ.get("SEEDNAME", V)          # round 2: a -> c, b -> d
dst = "/verif/seeded/%s-%s" % (P.lower(), name)
os.makedirs(dst, exist_ok=True)
for f in ("patch.diff", "demo.py", "notes.md"):
    if os.path.exists(os.path.join(src, f)):
        shutil.copy(os.path.join(src, f), os.path.join(dst, f))
files = sorted({l.split(" b/")[1].strip() for l in open(os.path.join(dst, "patch.diff")) if l.startswith("diff --git")})
json.dump({"property": P, "id": "%s-%s" % (P.lower(), name), "files_changed": files, "needs_to_manifest": needs,
           "confirmed_by": ran, "origin": "independent sub-agent given only the property text and a scratch worktree"},
          open(os.path.join(dst, "meta.json"), "w"), indent=1)
print(dst, files)

"""World "hcm": the FKM-nonlinear HCM detector driven as a history of passes
(C04, C05).

real: FKMNonlinearDetector, FKMNonlinearRecorder, Binned(ExtendedNeuber|SeegerBeste),
      find_turns/_new_turns.
stub: load-sequence source, pass driver, injected non-reversal samples,
      models/periodic_rainflow.py (C04) and models/hcm_ref.py (C05).
"""
import copy
import math
from collections import Counter

import numpy as np
import pandas as pd

from sim import core
from sim.core import Outcome, Log, RealCodeError
from models import periodic_rainflow as per
from models import rainflow_ref as rref
from models.hcm_ref import HcmRef

from pylife.materiallaws.notch_approximation_law import ExtendedNeuber, Binned
from pylife.materiallaws.notch_approximation_law_seegerbeste import SeegerBeste
from pylife.stress.rainflow.fkm_nonlinear import FKMNonlinearDetector
from pylife.stress.rainflow.recorders import FKMNonlinearRecorder

NAME = "hcm"

PROPS = {
    "C04": {"quick": {"runs": 9000, "budget_s": 55, "batch": 25, "det_pool": 16, "det_fresh": 6, "min_time_s": 60},
            "thorough": {"runs": 300000, "budget_s": 1100, "batch": 100, "det_pool": 200, "det_fresh": 30, "min_time_s": 120}},
    "C05": {"quick": {"runs": 3200, "budget_s": 55, "batch": 10, "det_pool": 16, "det_fresh": 6, "min_time_s": 90},
            "thorough": {"runs": 100000, "budget_s": 1100, "batch": 50, "det_pool": 120, "det_fresh": 20, "min_time_s": 180}},
}

MATERIALS = [
    # E, K', n', K_p
    (206e3, 2650.0, 0.187, 3.5),
    (206e3, 1184.0, 0.187, 2.5),
    (70e3, 950.0, 0.128, 1.8),
    (206e3, 3.1148 * (1251) ** 0.897 / ((min(0.338, 1033. * 1251. ** (-1.235))) ** 0.187), 0.187, 3.5),
]
LAWS = {"EN": ExtendedNeuber, "SB": SeegerBeste}

_law_cache = {}


def law_nodes(pairs, order):
    """The per-node maxima in the node order in which the user built them: like the samples, sorted by
    node id (what signal.abs().groupby('node_id').max() gives), or reversed."""
    pairs = list(pairs)
    if order == "sorted":
        pairs.sort(key=lambda p: p[0])
    elif order == "reversed":
        pairs.reverse()
    return pairs


def get_law(kind, mat, max_load, bins, built="ctor"):
    """Binned law; cached per process (construction is a pure function of the key).
    built: how its owner got to the parameters - all through the constructor, or K' / K_p through the public
    setters afterwards ("set_K", "set_Kp"); "refill": the per-node maxima Series handed to Binned is the caller's
    work array, which he refills for his next batch as soon as Binned() has returned."""
    if isinstance(max_load, (list, tuple)):
        key = (kind, mat, tuple(max_load), bins, built)
    else:
        key = (kind, mat, float(max_load), bins, built)
    law = _law_cache.get(key)
    if law is None:
        E, K, n, Kp = MATERIALS[mat]
        try:
            if built == "set_K":
                base = LAWS[kind](E, K * 2.25, n, Kp)
                base.K = K
            elif built == "set_Kp":
                base = LAWS[kind](E, K, n, Kp * 1.5 if Kp is not None else None)
                base.K_p = Kp
            else:
                base = LAWS[kind](E, K, n, Kp)
        except Exception as e:     # noqa
            raise RealCodeError("law()", e)
        if isinstance(max_load, (list, tuple)):
            ids, vals = zip(*max_load)
            ml = pd.Series(list(vals), index=pd.Index(list(ids), name="node_id"))
        else:
            ml = float(max_load)
        try:
            law = Binned(base, ml, bins)
            if built == "refill" and isinstance(ml, pd.Series):
                ml[:] = ml.to_numpy()[::-1] * 3.0 + 1.0
        except Exception as e:     # noqa
            raise RealCodeError("Binned()", e)
        if len(_law_cache) > 300:
            _law_cache.clear()
        _law_cache[key] = law
    return law


class ScalarLaw:
    """The same law object through its public scalar interface."""

    def __init__(self, binned):
        self.b = binned

    def stress(self, L):
        return float(self.b.stress(float(L)))

    def strain(self, S, L):
        return float(self.b.strain(float(S), float(L)))

    def dstress(self, dL):
        return float(self.b.stress_secondary_branch(float(dL)))

    def dstrain(self, dS, dL):
        return float(self.b.strain_secondary_branch(float(dS), float(dL)))


# ------------------------------------------------------------------ sources

def gen_levels(rng, n, amp):
    mode = rng.choice(["walk", "walk", "zigzag", "nested", "extremes", "m3_after_m2"])
    if mode == "m3_after_m2":
        # inner loops left open, then a new overall extreme: closing them (Memory 2) brings the
        # stack down to the primary points and the new extreme is a Memory 3 event
        out = []
        e = rng.randint(1, max(1, amp // 2))
        sign = rng.choice([-1, 1])
        while len(out) < n:
            out.append(sign * e)
            lo, hi = -e + 1, e - 1
            k = rng.randint(0, 3)
            cur_hi = sign > 0
            for _ in range(k):
                if hi - lo < 1:
                    break
                if cur_hi:
                    lo2 = rng.randint(lo, hi - 1)
                    out.append(lo2)
                    lo = lo2 + 1 if rng.random() < 0.7 else lo2
                else:
                    hi2 = rng.randint(lo + 1, hi)
                    out.append(hi2)
                    hi = hi2 - 1 if rng.random() < 0.7 else hi2
                cur_hi = not cur_hi
            e += rng.randint(1, 2)
            sign = -sign if rng.random() < 0.8 else sign
        return out[:max(n, 2)]
    if mode == "walk":
        return [rng.randint(-amp, amp) for _ in range(n)]
    if mode == "zigzag":
        sign = rng.choice([-1, 1])
        out = []
        grow = rng.random() < 0.5
        for k in range(n):
            a = min(amp, (k + 1) if grow else max(1, n - k))
            out.append(sign * a + rng.choice([0, 0, 1, -1]))
            sign = -sign
        return [max(-amp, min(amp, x)) for x in out]
    if mode == "nested":
        # big loop with nested inner loops (Memory 2 chains)
        out = [rng.choice([-1, 1]) * amp]
        lo, hi = -amp, amp
        while len(out) < n:
            if hi - lo < 2:
                lo, hi = -rng.randint(1, amp), rng.randint(1, amp)
            if out[-1] >= hi:
                lo += rng.choice([0, 1, 1, 2])
                out.append(min(lo, hi - 1))
            else:
                hi -= rng.choice([0, 1, 1, 2])
                out.append(max(hi, lo + 1))
        return out[:n]
    hi, lo = amp, -amp
    return [hi if rng.random() < 0.25 else lo if rng.random() < 0.33 else rng.randint(-amp + 1, amp - 1) for _ in range(n)]


def gen_sequence_c04(rng):
    amp = rng.choice([2, 3, 4, 5, 8, 12])
    n = rng.choice([2, 3, 3, 4, 4, 5, 5, 6, 7, 8, 10, 12, 16, 22])
    if rng.random() < 0.015:
        n, amp = rng.choice([90, 160]), rng.choice([12, 30])       # a long recording now and then
    lv = gen_levels(rng, n, amp)
    if rng.random() < 0.25:                # positive-only / negative-only sequences
        s = rng.choice([-1, 1])
        lv = [s * abs(x) for x in lv]
    # junction knobs
    r = rng.random()
    if r < 0.12 and lv[0] != 0:            # last strictly between 0 and first
        f = lv[0]
        if abs(f) >= 2:
            lv.append(int(math.copysign(rng.randint(1, abs(f) - 1), f)))
    elif r < 0.22:                         # trailing plateau (a dwell at the end of the recording may be long)
        lv += [lv[-1]] * rng.choice([1, 2, 3, 3, 40, 70, 130])
    elif r < 0.30:                         # leading plateau
        lv = [lv[0]] * rng.choice([1, 2, 3, 3, 40, 70]) + lv
    elif r < 0.38:                         # abs max only at the end (and in a trailing plateau)
        m = max(abs(x) for x in lv) + 1
        lv += [rng.choice([-1, 1]) * m] * rng.randint(1, 3)
    elif r < 0.46:                         # non-reversal last sample that may pass an older reversal
        d = 1 if len(lv) < 2 or lv[-1] >= lv[-2] else -1
        lv.append(lv[-1] + d * rng.randint(1, amp))
    elif r < 0.52:                         # trailing / leading zeros
        if rng.random() < 0.5:
            lv.append(0)
        else:
            lv = [0] + lv
    if rng.random() < 0.1 and 0 in lv:
        q = lv.index(0)
        lv = lv[:q] + [0] * rng.randint(1, 2) + lv[q:]          # a dwell at zero load
    if rng.random() < 0.12:                # the recording starts at zero load (one or several samples)
        lv = [0] * rng.choice([1, 1, 2, 3]) + lv
    if len(set(lv)) < 2:
        lv.append(lv[-1] + rng.choice([-1, 1]) * rng.randint(1, amp))
    # injected non-reversal samples (dup / mid), anywhere incl. the junction
    if rng.random() < 0.45:
        lv = refine(rng, lv, junction=True, density=rng.choice([0.15, 0.4]))
    return lv


def refine(rng, lv, junction, density):
    """Insert samples that are not reversals of the repeated sequence:
    duplicates and intermediate points; with junction=True also after the last
    sample (between last and first) and before the first."""
    out = []
    n = len(lv)
    for i, x in enumerate(lv):
        out.append(x)
        nxt = lv[i + 1] if i + 1 < n else (lv[0] if junction else None)
        if nxt is None or rng.random() >= density:
            continue
        if rng.random() < 0.4 or abs(nxt - x) < 2:
            out += [x] * rng.randint(1, 2)
        else:
            lo, hi = (x, nxt) if x < nxt else (nxt, x)
            k = rng.randint(1, 2)
            pts = sorted(rng.randint(lo + 1, hi - 1) for _ in range(k))
            if x > nxt:
                pts.reverse()
            out += pts
    if junction and rng.random() < density and abs(lv[-1] - lv[0]) >= 2:
        lo, hi = sorted((lv[-1], lv[0]))
        out = [rng.randint(lo + 1, hi - 1)] + out        # before the first sample
    return out


def turn_at_zero_junction(lv):
    """Is the last sample a turning point if the zero-prefixed sequence [0] + lv follows
    (plateaus looked through)?"""
    last = lv[-1]
    prev = next((x for x in reversed(lv[:-1]) if x != last), None)
    nxt = next((x for x in [0] + list(lv) if x != last), None)
    if prev is None or nxt is None:
        return False
    return (last - prev) * (nxt - last) < 0


def junction_class(lv):
    first, last = lv[0], lv[-1]
    sgn = lambda v: "+" if v > 0 else "-" if v < 0 else "0"   # noqa
    f = ["L" + sgn(last), "F" + sgn(first)]
    f.append("rev" if per.is_periodic_reversal_last(lv) else "norev")
    if first != 0 and last != 0 and (0 < last < first or first < last < 0):
        f.append("between")
    if len(lv) > 1 and lv[-1] == lv[-2]:
        f.append("tplat")
    if len(lv) > 1 and lv[0] == lv[1]:
        f.append("lplat")
    big = max(abs(x) for x in lv)
    pos = [i for i, x in enumerate(lv) if abs(x) == big]
    core_end = len(lv) - 1
    while core_end > 0 and lv[core_end - 1] == lv[-1]:
        core_end -= 1
    if pos[0] >= core_end:
        f.append("maxend")
    elif pos[0] == 0:
        f.append("maxstart")
    # turn at the zero junction?
    f.append("zturn" if turn_at_zero_junction(lv) else "nozturn")
    if last == 0:
        f.append("lastzero")
    return ".".join(f)


# ------------------------------------------------------------------ real-code driver

def relabel_steps(ser, how):
    """Other load_step labels for the same rows: the labels name the steps, their order is the row order."""
    steps = list(ser.index.get_level_values("load_step").unique())
    if how == "gapped":
        m = {s_: 3 * q for q, s_ in enumerate(steps)}
    elif how == "offset":
        m = {s_: 7 + q for q, s_ in enumerate(steps)}
    elif how == "unsorted":
        perm = steps[::-1] if len(steps) % 2 else steps[1:] + steps[:1]
        m = dict(zip(steps, perm))
    elif how == "timestamp_ns":
        m = {s_: 1_700_000_000_000_000_000 + q for q, s_ in enumerate(steps)}       # int64 nanosecond time stamps
    elif how == "float_seconds":
        m = {s_: 0.25 * q for q, s_ in enumerate(steps)}                            # labelled by time in seconds
    elif how == "negative":
        m = {s_: q - len(steps) - 3 for q, s_ in enumerate(steps)}                  # counted back from a trigger event
    else:
        return ser
    idx = pd.MultiIndex.from_arrays([[m[a] for a in ser.index.get_level_values("load_step")],
                                     ser.index.get_level_values("node_id")], names=["load_step", "node_id"])
    return pd.Series(ser.to_numpy(), index=idx, name=ser.name)


def cut_out_of_larger_mesh(ser, node_ids):
    """The batch as a selection out of a larger mesh series (mesh[mask]): same rows and values, but the
    MultiIndex keeps the unused node ids of the whole mesh in its levels."""
    steps = ser.index.get_level_values("load_step").unique()
    extra = [max(node_ids) + 3, min(node_ids) - 2 if min(node_ids) >= 2 else max(node_ids) + 9]
    big_idx = pd.MultiIndex.from_product([steps, list(node_ids) + extra], names=["load_step", "node_id"])
    big = pd.Series(0.0, index=big_idx)
    big.loc[ser.index] = ser.to_numpy()
    sel = big[big.index.get_level_values("node_id").isin(list(node_ids))]
    return sel.loc[ser.index] if not sel.index.equals(ser.index) else sel


def node_major(ser, node_ids):
    """The same (load_step, node_id) series with the rows grouped by node instead of by load step."""
    return pd.concat([ser[ser.index.get_level_values("node_id") == i] for i in node_ids])


def as_container(loads, kind):
    """The same numbers in another container / dtype (all values are integers that fit)."""
    if kind == "list":
        return [float(x) for x in loads]
    if kind == "i64":
        return loads.astype(np.int64)
    if kind == "i32":
        return loads.astype(np.int32)
    if kind == "i16":
        return loads.astype(np.int16) if float(np.max(np.abs(loads))) < 32000 else loads.astype(np.int32)
    if kind == "f32int":
        return loads.astype(np.float32)
    if kind == "tuple":
        return tuple(float(x) for x in loads)
    if kind == "deque":
        import collections
        return collections.deque(float(x) for x in loads)
    if kind == "array":
        import array
        return array.array("d", [float(x) for x in loads])
    if kind == "series":
        return pd.Series(loads, index=pd.RangeIndex(3, 3 + len(loads)))
    if kind == "negzero":
        out = loads.copy()
        out[out == 0] = -0.0
        return out
    if kind == "mixedzero":
        out = loads.copy()                  # neighbouring zeros of both signs (np.round of small values)
        flip = False
        for q in range(len(out)):
            if out[q] == 0:
                out[q] = -0.0 if flip else 0.0
                flip = not flip
        return out
    if kind == "series_ls":
        # one point cut out of multi-point blocks: a one-level index named load_step whose labels repeat
        half = max(1, len(loads) // 2)
        labels = list(range(half)) + list(range(len(loads) - half))
        return pd.Series(loads, index=pd.Index(labels, name="load_step"))
    return loads


def checkpoint(det, how):
    """Continue on a copy of the detector (checkpoint / restore; the assessment code itself deep-copies
    the detector between the passes)."""
    import copy as _copy
    import pickle as _pickle
    if how == "deepcopy":
        return _copy.deepcopy(det)
    if how == "pickle":
        return _pickle.loads(_pickle.dumps(det))
    return det


def run_two_pass(loads, law, second=True, peek="none", ckpt="none", loads_second=None, rec=None, refill=False):
    """loads: 1-D float array (single point) or Series (load_step, node_id).
    peek: the user looks at recorder.collective before the first pass and / or between the passes.
    loads_second: what the second pass is fed (default: the same object as the first pass).
    rec: a recorder that already served another detector."""
    rec = FKMNonlinearRecorder() if rec is None else rec
    loads_first = loads
    try:
        det = FKMNonlinearDetector(recorder=rec, notch_approximation_law=law)
        if peek in ("before", "both"):
            rec.collective
        det.process_hcm_first(loads)
        first_rows = None
        if peek in ("between", "both"):
            rec.collective
        if peek in ("plot", "plot_hyst"):
            # the documented way to look at the curve so far.  Whether the plot helper itself copes with every
            # history is not C04's or C05's subject (it raises AttributeError for [2,-2,0,-3,2,0,2] on the unchanged
            # tree); what is judged is that looking does not change what is counted afterwards.
            try:
                if peek == "plot_hyst":
                    det.interpolated_stress_strain_data(n_points_per_branch=2, only_hystereses=True)    # the closed loops only
                else:
                    det.interpolated_stress_strain_data(n_points_per_branch=3)
            except Exception:      # noqa
                pass
        if ckpt == "fork":
            # both the original and its deep copy go on (the assessment code hands the first-pass detector
            # to the user and continues on a copy): the copy is what the caller evaluates, the original runs first
            twin = checkpoint(det, "deepcopy")
            if second:
                det.process_hcm_second(loads if loads_second is None else loads_second)
            det = twin
            rec = det.recorder
        elif ckpt != "none":
            det = checkpoint(det, ckpt)
            rec = det.recorder
        if second and refill and loads_second is not None and len(loads_second) == len(loads):
            # the caller reads the second recording into the buffer that held the first one
            loads[:] = loads_second
            det.process_hcm_second(loads)
        elif second:
            det.process_hcm_second(loads if loads_second is None else loads_second)
    except Exception as e:    # noqa
        raise RealCodeError("process_hcm", e)
    return det, rec, first_rows


COLS = ["loads_min", "loads_max", "S_min", "S_max", "R", "epsilon_min", "epsilon_max", "S_a", "S_m",
        "epsilon_a", "epsilon_m", "epsilon_min_LF", "epsilon_max_LF", "is_closed_hysteresis",
        "is_zero_mean_stress_and_strain", "run_index"]


PROPS_OF_RECORDER = {"loads_min": "loads_min", "loads_max": "loads_max", "S_min": "S_min", "S_max": "S_max",
                     "epsilon_min": "epsilon_min", "epsilon_max": "epsilon_max", "S_a": "S_a", "S_m": "S_m",
                     "epsilon_a": "epsilon_a", "epsilon_m": "epsilon_m", "R": "R",
                     "is_closed_hysteresis": "is_closed_hysteresis"}


def collective_rows(rec):
    try:
        c = rec.collective
        cols = {k: c[k].to_numpy() for k in COLS}
        idx = [(int(h), int(a)) for h, a in c.index]
        # the recorder's individual properties are views of the same recording
        for attr, col in PROPS_OF_RECORDER.items():
            got = getattr(rec, attr)
            v = np.asarray(got).reshape(-1)
            w = np.asarray(cols[col]).reshape(-1)
            if len(w) and (len(v) != len(w) or not np.array_equal(np.asarray(v, dtype=np.float64), np.asarray(w, dtype=np.float64), equal_nan=True)):
                raise ValueError("recorder.%s disagrees with recorder.collective[%r]" % (attr, col))
            # derived quantities are computed results: what the caller does with the array it got
            # (scaling it in place, clipping it) must not change what the recorder reports next
            if attr in ("S_a", "S_m", "epsilon_a", "epsilon_m", "R") and isinstance(got, np.ndarray) and got.flags.writeable and got.size:
                got *= 1000.0
        if len(idx):
            c2 = rec.collective
            for k in ("S_a", "S_m", "epsilon_a", "epsilon_m", "R"):
                if not np.array_equal(np.asarray(c2[k].to_numpy(), dtype=np.float64), np.asarray(cols[k], dtype=np.float64), equal_nan=True):
                    raise ValueError("recorder.collective[%r] changed after the caller modified the array returned by recorder.%s" % (k, k))
    except Exception as e:    # noqa
        raise RealCodeError("collective", e)
    rows = []
    for r in range(len(idx)):
        row = {}
        for k in COLS:
            v = cols[k][r]
            if k in ("is_closed_hysteresis", "is_zero_mean_stress_and_strain"):
                row[k] = bool(v)
            elif k == "run_index":
                row[k] = int(v)
            else:
                row[k] = float(v)
        row["_idx"] = idx[r]
        rows.append(row)
    return rows


# ------------------------------------------------------------------ generate

def generate(prop, rng, tier):
    if prop == "C04":
        lv = gen_sequence_c04(rng)
        step = rng.choice([10.0, 25.0, 50.0, 100.0])
        tr = {"world": NAME, "levels": lv, "step": step, "law": rng.choice(["EN", "EN", "EN", "SB"]),
              "mat": rng.randrange(len(MATERIALS)), "bins": rng.choice([10, 20, 50]),
              "twin": None,
              "container": rng.choice(["f64", "f64", "f64", "list", "i64", "i32", "i16", "series", "f32int", "negzero", "mixedzero", "series_ls", "tuple", "deque", "array"]),
              "peek": rng.choice(["none", "none", "before", "between", "both", "plot", "plot_hyst"]),
              "ckpt": rng.choice(["none", "none", "none", "deepcopy", "pickle", "fork"])}
        if rng.random() < 0.3:
            # J3 twin: interior-only refinement, compared per pass with the base
            tr["twin"] = refine(rng, lv, junction=False, density=rng.choice([0.3, 0.7]))
        elif rng.random() < 0.25:
            # the two passes are fed different recordings of the same repeated sequence (the raw signal once, a
            # thinned or refined one the other time): another refinement incl. the junction, or the reversals only
            tr["twin2"] = refine(rng, lv, junction=True, density=rng.choice([0.3, 0.7])) if rng.random() < 0.6 else "reversals"
            tr["shared_recorder"] = rng.random() < 0.5
            tr["same_buffer"] = rng.random() < 0.4
        elif rng.random() < 0.3:
            # the same history on a batched replica (several proportional points at once):
            # the junction code has a branch of its own for Series input
            m = rng.randint(1, 3)
            ids = rng.sample([0, 1, 2, 5, 11, 12, 40], m)
            tr["batch"] = [[i, rng.choice([1.0, 2.0, 0.5, 4.0])] for i in ids]
            if rng.random() < 0.25:
                # points on the tension and on the compression side of a part under bending: factors of either sign
                tr["batch"] = [[i, f * rng.choice([1.0, -1.0])] for i, f in tr["batch"]]
            tr["row_order"] = rng.choice(["step", "step", "node"])
            tr["subset_of_mesh"] = rng.random() < 0.4
            tr["law_order"] = rng.choice(["samples", "samples", "sorted", "reversed"])
            tr["series_name"] = rng.choice([None, None, "load", "F"])
            tr["step_labels"] = rng.choice(["range", "range", "gapped", "offset", "unsorted", "timestamp_ns", "negative", "float_seconds"])
            tr["batch_dtype"] = rng.choice(["f64", "f64", "i8", "i8", "i16", "i32", "i64", "f32"])
        return tr
    return generate_c05(rng, tier)


def gen_sequence_c05(rng):
    """Benign junction: the last sample is a reversal w.r.t. 0 and w.r.t. the
    first sample; no leading/trailing plateau.  Otherwise adversarial."""
    for _ in range(200):
        amp = rng.choice([3, 4, 5, 8, 12, 20])
        n = rng.choice([2, 3, 4, 5, 6, 8, 10, 12, 16, 20, 26])
        if rng.random() < 0.015:
            n, amp = rng.choice([80, 140]), rng.choice([20, 40])     # a long recording now and then
        lv = gen_levels(rng, n, amp)
        if rng.random() < 0.3:
            lv = refine(rng, lv, junction=False, density=0.3)
        if len(set(lv)) < 2 or lv[0] == lv[1] or lv[-1] == lv[-2]:
            continue
        last, prev, first = lv[-1], lv[-2], lv[0]
        if (last - prev) * (0 - last) < 0 and (last - prev) * (first - last) < 0:
            return lv
    return [3, -2, 1, -3]


def _off_edge(max_load, bins, loads):
    """Is every |load|, |load difference| and 2|load| away from every class edge?"""
    width = max_load / bins
    vals = {abs(a) for a in loads} | {abs(a - b) for a in loads for b in loads} | {2 * abs(a) for a in loads}
    for v in vals:
        if v == 0:
            continue
        q = v / width
        if abs(q - round(q)) < 1e-6:
            return False
    return True


def generate_c05(rng, tier):
    lv = gen_sequence_c05(rng)
    step = rng.choice([10.0, 25.0, 40.0, 100.0])
    big = max(abs(x) for x in lv) * step
    tr = {"world": NAME, "levels": lv, "step": step, "law": rng.choice(["EN", "EN", "SB"]),
          "mat": rng.randrange(len(MATERIALS)), "bins": rng.choice([20, 50, 100, 200]),
          "mode": rng.choice(["K1", "K1", "K2", "K2", "K3"]),
          "peek": rng.choice(["none", "none", "between", "both", "plot", "plot_hyst"]),
          "ckpt": rng.choice(["none", "none", "deepcopy", "pickle", "fork"]),
          "law_built": rng.choice(["ctor", "ctor", "ctor", "set_K", "set_Kp", "refill"])}
    edge = rng.random() < 0.4
    tr["max_factor"] = rng.choice([1.0, 1.0, 1.25, 2.0]) if edge else rng.choice([1.0137, 1.0731, 1.3391, 1.9173])
    if rng.random() < 0.22:
        return generate_c05_chunked(rng, tr)
    if tr["mode"] == "K2":
        tr["solo_rebuilt"] = rng.random() < 0.25
        m = rng.randint(1, 5)
        ids = rng.sample([0, 1, 2, 3, 5, 7, 11, 12, 13, 40, 1000], m)
        if rng.random() < 0.5:
            ids.sort()
        ratios = [1.0] + [rng.choice([0.5, 2.0, 0.25, 1.5, 0.37, 1.913, 0.811, 3.0]) for _ in range(m - 1)]
        if rng.random() < 0.5:
            rng.shuffle(ratios)
        tr["nodes"] = [[i, r] for i, r in zip(ids, ratios)]
        tr["shared_max"] = rng.random() < 0.35
        tr["row_order"] = rng.choice(["step", "step", "node"])
        tr["subset_of_mesh"] = rng.random() < 0.4
        tr["law_order"] = rng.choice(["samples", "samples", "sorted", "reversed"])
        tr["series_name"] = rng.choice([None, None, "load", "F"])
        tr["step_labels"] = rng.choice(["range", "range", "gapped", "offset", "unsorted", "timestamp_ns", "negative"])
        # K2 wants all loads off the class edges (see DESIGN 4.5 "known trap")
        f = 1.0137
        loads = [x * step for x in lv]
        tries = 0
        while tries < 100 and not all(_off_edge(big * f * r, tr["bins"], [x * r for x in loads]) for _, r in tr["nodes"]):
            f += 0.0137
            tries += 1
        tr["max_factor"] = f
    return tr


def generate_c05_chunked(rng, tr):
    """K4: a raw history of process(chunk) calls on a batched replica and on its
    solo replicas (same chunking).  Dwells (plateaus) on purpose, cuts aimed at them."""
    amp = rng.choice([3, 4, 5, 8])
    n = rng.choice([4, 6, 8, 10, 14, 20])
    lv = gen_levels(rng, n, amp)
    if rng.random() < 0.3:
        # a pure reversal sequence: every sample of every block is a turning point
        lv = [x for i, x in enumerate(lv) if i == 0 or x != lv[i - 1]]
        lv = [x for i, x in enumerate(lv) if not (0 < i < len(lv) - 1 and (lv[i] - lv[i - 1]) * (lv[i + 1] - lv[i]) >= 0)]
        out = lv if len(lv) >= 3 else [1, -2, 3, -1]
    else:
        out = []
        for x in lv:
            out.append(x)
            while rng.random() < rng.choice([0.0, 0.3, 0.5]):
                out.append(x)                     # dwell
    lv = refine(rng, out, junction=False, density=0.2) if rng.random() < 0.25 else out
    if len(set(lv)) < 2:
        lv = lv + [lv[-1] + 1]
    n = len(lv)
    # cuts: on / after / inside plateaus and turning points, or random
    cuts = set()
    for i in range(1, n):
        near_dwell = lv[i] == lv[i - 1] or (i + 1 < n and lv[i] == lv[i + 1])
        p = 0.45 if near_dwell else 0.15
        if rng.random() < p:
            cuts.add(i)
    if not cuts:
        cuts.add(rng.randint(1, n - 1))
    m = rng.randint(1, 4)
    ids = rng.sample([0, 1, 2, 3, 5, 7, 11, 12, 13, 40], m)
    ratios = [1.0] + [rng.choice([0.5, 2.0, 0.25, 4.0, 3.0, 1.5]) for _ in range(m - 1)]
    if rng.random() < 0.012:
        # a long history streamed sample by sample (hundreds of process() calls)
        lv = gen_levels(rng, rng.choice([280, 330]), 9)
        n = len(lv)
        cuts = set(range(1, n))
        ids, ratios = ids[:2], ratios[:2]
    tr.update({"mode": "K4", "levels": lv, "cuts": sorted(cuts), "nodes": [[i, r] for i, r in zip(ids, ratios)],
               "ckpt": rng.choice(["none", "none", "deepcopy", "pickle"]), "ckpt_at": rng.randrange(64),
               "law_order": rng.choice(["samples", "samples", "sorted", "reversed"]),
               "chunk_row_order": rng.choice([0, 0, 1, 2, 3]),
               "final_flush": rng.random() < 0.6, "restart_load_step": rng.random() < 0.3, "max_factor": 1.0731,
               "shared_max": rng.random() < 0.3,
               "label_offset": rng.choice([0, 0, 0, 1, 7, 1000])})
    return tr


# ------------------------------------------------------------------ execute

def execute(prop, trace):
    out = Outcome()
    log = Log()
    try:
        if prop == "C04":
            exec_c04(trace, out, log)
        else:
            exec_c05(trace, out, log)
    except RealCodeError as e:
        out.violate("exception", e.where, {"type": e.exc_type, "msg": e.msg[:300]})
    out.digest = log.digest()
    return out


def _pairs(rows, run=None, closed=None):
    out = []
    for r in rows:
        if run is not None and r["run_index"] != run:
            continue
        if closed is not None and r["is_closed_hysteresis"] != closed:
            continue
        out.append((r["loads_min"], r["loads_max"]))
    return out


def exec_c04(trace, out, log):
    lv = [int(x) for x in trace["levels"]]
    step = float(trace["step"])
    if len(lv) < 2 or len(set(lv)) < 2:
        return
    loads = np.array([x * step for x in lv], dtype=np.float64)
    big = float(max(abs(loads)))
    batch = trace.get("batch")
    if batch:
        nodes = [(int(i), float(r)) for i, r in batch]
        idx = pd.MultiIndex.from_product([range(len(lv)), [i for i, _ in nodes]], names=["load_step", "node_id"])
        ser = pd.Series([x * step * r for x in lv for _, r in nodes], index=idx, dtype=np.float64)
        if trace.get("subset_of_mesh"):
            ser = cut_out_of_larger_mesh(ser, [i for i, _ in nodes])
            out.count("probe:batch_cut_out_of_larger_mesh")
        if trace.get("row_order") == "node":
            ser = node_major(ser, [i for i, _ in nodes])
            out.count("probe:node_major_rows")
        bd = trace.get("batch_dtype")
        if bd and bd != "f64":
            dt = {"i8": np.int8, "i16": np.int16, "i32": np.int32, "i64": np.int64, "f32": np.float32}[bd]
            v = ser.to_numpy()
            fits = np.array_equal(np.round(v), v) and (bd == "f32" or (np.iinfo(dt).min <= v.min() and v.max() <= np.iinfo(dt).max))
            if fits:
                ser = ser.astype(dt)                           # whole-number loads of a logger with a narrow integer channel
                out.count("container:batch_" + bd)
        if trace.get("series_name"):
            ser = ser.rename(trace["series_name"])           # users' series usually carry a name
        if trace.get("step_labels") in ("gapped", "offset", "unsorted", "timestamp_ns", "negative", "float_seconds"):
            ser = relabel_steps(ser, trace["step_labels"])
            out.count("probe:load_step_labels_" + trace["step_labels"])
        law = get_law(trace["law"], int(trace["mat"]), law_nodes([(i, big * 1.0731 * abs(r)) for i, r in nodes], trace.get("law_order")), int(trace["bins"]))
        if trace.get("law_order") in ("sorted", "reversed"):
            out.count("probe:law_node_order_" + trace["law_order"])
        det, rec, _ = run_two_pass(ser, law, peek=trace.get("peek", "none") if trace.get("peek") not in ("plot", "plot_hyst") else "between")
        all_rows = collective_rows(rec)
        out.steps += 2
        out.count("probe:batched_history")
        if len({r > 0 for _, r in nodes}) == 2:
            out.count("probe:batch_factors_of_either_sign")
        # every point must count what the scalar history counts, scaled by its (power of two) ratio
        rows = None
        for j, (nid, ratio) in enumerate(nodes):
            mine = [dict(r) for r in all_rows if r["_idx"][1] == j]
            for r in mine:
                for k in ("loads_min", "loads_max"):
                    r[k] = r[k] / ratio
                if any(q < 0 for _, q in nodes) and r["loads_min"] > r["loads_max"]:
                    # which reversal is "min" is decided at the first point; for a point of the other sign the two load
                    # columns come swapped (C04 speaks about load ranges): compare the pair, not the column names
                    r["loads_min"], r["loads_max"] = r["loads_max"], r["loads_min"]
            key = [(r["loads_min"], r["loads_max"], r["is_closed_hysteresis"], r["run_index"]) for r in mine]
            if rows is None:
                rows, key0 = mine, key
            elif key != key0:
                out.violate("J1-second-pass-is-periodic-rainflow", "batched-points-disagree",
                            {"levels": lv, "step": step, "batch": batch, "point": nid, "first": key0[:20], "this": key[:20]})
                return
    else:
        law = get_law(trace["law"], int(trace["mat"]), big * 1.0731, int(trace["bins"]))
        det, rec, _ = run_two_pass(as_container(loads, trace.get("container", "f64")), law, peek=trace.get("peek", "none"),
                                   ckpt=trace.get("ckpt", "none"))
        if trace.get("ckpt", "none") != "none":
            out.count("history:checkpoint_" + trace["ckpt"])
        if trace.get("peek", "none") != "none":
            out.count("history:collective_read_early")
        rows = collective_rows(rec)
        out.steps += 2
        out.count("container:" + trace.get("container", "f64"))
    log.add("rows", [[r[k] for k in ("loads_min", "loads_max", "is_closed_hysteresis", "run_index")] for r in rows])
    want = Counter((a * step, b * step) for a, b in per.periodic_cycles(lv))
    jc = junction_class(lv)
    # J1
    got2 = Counter(_pairs(rows, run=2))
    if got2 != want:
        out.violate("J1-second-pass-is-periodic-rainflow", "second-pass",
                    {"levels": lv, "step": step, "junction": jc,
                     "missing": sorted((want - got2).elements()), "surplus": sorted((got2 - want).elements())})
    # J2
    for r in rows:
        if not r["is_closed_hysteresis"]:
            if r["run_index"] != 1:
                out.violate("J2-memory3-only-first-pass", "second-pass", {"levels": lv, "step": step, "junction": jc,
                                                                         "row": [r["loads_min"], r["loads_max"], r["run_index"]]})
                break
            sym = (r["loads_min"] == -r["loads_max"] and r["S_min"] == -r["S_max"] and r["epsilon_min"] == -r["epsilon_max"])
            if not sym:
                out.violate("J2-memory3-symmetric", "first-pass", {"levels": lv, "row": {k: r[k] for k in COLS}})
                break
    n_m3 = sum(1 for r in rows if not r["is_closed_hysteresis"])
    if n_m3:
        out.count("probe:memory3_rows", n_m3)
    if len(want) >= 1:
        out.sigs.append("c04|%s|cy%d|m3_%d" % (jc, min(sum(want.values()), 6), min(n_m3, 3)))
    out.count("junction:" + ("rev" if "norev" not in jc else "norev"))
    for tag in ("between", "tplat", "lplat", "maxend", "nozturn"):
        if tag in jc.split("."):
            out.count("junction:" + tag)
    # J3: interior refinement twin
    tw = trace.get("twin")
    if tw:
        tw = [int(x) for x in tw]
        if _same_interior_reversals(lv, tw):
            loads2 = np.array([x * step for x in tw], dtype=np.float64)
            det2, rec2, _ = run_two_pass(loads2, law)
            rows2 = collective_rows(rec2)
            out.steps += 2
            out.count("fault:interior_refinement")
            log.add("twin", [[r[k] for k in ("loads_min", "loads_max", "is_closed_hysteresis", "run_index")] for r in rows2])
            for run in (1, 2):
                a = Counter((r["loads_min"], r["loads_max"], r["is_closed_hysteresis"]) for r in rows if r["run_index"] == run)
                b = Counter((r["loads_min"], r["loads_max"], r["is_closed_hysteresis"]) for r in rows2 if r["run_index"] == run)
                if a != b:
                    out.violate("J3-non-reversal-samples", "pass%d" % run,
                                {"levels": lv, "twin": tw, "step": step, "only_base": sorted((a - b).elements()),
                                 "only_twin": sorted((b - a).elements())})
                    break
        else:
            out.count("skipped:twin_not_a_refinement")
    # J1 with two recordings of the same repeated sequence, one per pass (and one recorder serving both histories)
    tw2 = trace.get("twin2")
    if tw2 and not batch:
        if tw2 == "reversals":
            tw2 = _reversals_in_sequence_order(lv)
        tw2 = [int(x) for x in tw2]
        if len(set(tw2)) < 2 or not _same_periodic_reversals(lv, tw2):
            out.count("skipped:twin2_not_the_same_repeated_sequence")
            return
        if lv[0] == lv[-1] or tw2[0] == tw2[-1]:
            # a plateau across the junction: such a recording holds the junction reversal twice, the other one once -
            # they are not recordings of the same stretch of the repeated sequence
            out.count("skipped:twin2_other_stretch_of_the_sequence")
            return
        same_buffer = False
        if trace.get("same_buffer") and len(tw2) <= len(lv):
            # both recordings have the same number of samples (the shorter one dwells at interior samples) and the
            # caller reads them into ONE buffer object, refilled in place between the passes
            q = 0
            while len(tw2) < len(lv):
                i = 1 + q % max(1, len(tw2) - 1) if len(tw2) > 2 else 1
                tw2.insert(i, tw2[i])
                q += 2
            same_buffer = tw2[0] != tw2[-1] and _same_periodic_reversals(lv, tw2)
        shared = FKMNonlinearRecorder() if trace.get("shared_recorder") else None
        n_before = 0
        kept = []
        for first, secnd, tag in ((lv, tw2, "base-then-twin"), (tw2, lv, "twin-then-base")):
            if per.is_periodic_reversal_last(first) and not turn_at_zero_junction(first):
                out.count("skipped:mixed_passes_first_defers_a_true_reversal")      # the configuration of F-C04-4
                continue
            l1 = np.array([x * step for x in first], dtype=np.float64)
            l2 = np.array([x * step for x in secnd], dtype=np.float64)
            detm, recm, _ = run_two_pass(l1, law, loads_second=l2, rec=shared, refill=same_buffer)
            if same_buffer:
                out.count("history:second_recording_read_into_the_first_buffer")
            rows_all = collective_rows(recm)
            rowsm = rows_all[n_before:]
            if shared is not None:
                # the recorder keeps the rows of the history before; they must still be what they were
                if [(_r["loads_min"], _r["loads_max"], _r["run_index"]) for _r in rows_all[:n_before]] != kept:
                    out.violate("J1-second-pass-is-periodic-rainflow", "shared-recorder:earlier-rows-changed",
                                {"levels": first, "levels_second": secnd, "step": step})
                    return
                n_before = len(rows_all)
            kept = [(_r["loads_min"], _r["loads_max"], _r["run_index"]) for _r in rows_all]
            out.steps += 2
            out.count("history:passes_fed_different_recordings")
            if shared is not None:
                out.count("history:one_recorder_two_detectors")
            log.add("mixed", tag, [[r[k] for k in ("loads_min", "loads_max", "is_closed_hysteresis", "run_index")] for r in rowsm])
            gotm = Counter(_pairs(rowsm, run=2))
            if gotm != want:
                out.violate("J1-second-pass-is-periodic-rainflow", "second-pass:" + tag + (":shared-recorder" if shared is not None else ""),
                            {"levels_first": first, "levels_second": secnd, "step": step,
                             "missing_": sorted((want - gotm).elements()), "surplus_": sorted((gotm - want).elements())})
                return
            if any(r["run_index"] not in (1, 2) for r in rowsm):
                out.violate("J2-memory3-only-first-pass", "run-index:" + tag, {"levels_first": first, "levels_second": secnd,
                                                                               "run_index": sorted({int(r["run_index"]) for r in rowsm})})
                return


def _reversals_in_sequence_order(lv):
    """The reversals of the repeated sequence, in the order in which the sequence visits them."""
    comp = [x for i, x in enumerate(lv) if i == 0 or lv[i - 1] != x]
    while len(comp) > 1 and comp[0] == comp[-1]:
        comp.pop()
    m = len(comp)
    return [comp[i] for i in range(m) if (comp[i] - comp[i - 1]) * (comp[(i + 1) % m] - comp[i]) < 0]


def _same_periodic_reversals(a, b):
    ra, rb = _reversals_in_sequence_order(a), _reversals_in_sequence_order(b)
    if len(ra) != len(rb) or not ra:
        return False
    return any(ra == rb[k:] + rb[:k] for k in range(len(rb)))


def _same_interior_reversals(a, b):
    """b is a refinement of a by non-reversal interior samples: same first and
    last sample and the same sequence of reversal values."""
    if a[0] != b[0] or a[-1] != b[-1]:
        return False
    ra = [v for _, v in rref.interior_reversals([0] + a + a[:1])]
    rb = [v for _, v in rref.interior_reversals([0] + b + b[:1])]
    return ra == rb


TOL = 1e-9


def _close(a, b, scale):
    if isinstance(a, bool) or isinstance(b, bool):
        return a == b
    if math.isnan(a) or math.isnan(b):
        return math.isnan(a) and math.isnan(b)
    if math.isinf(a) or math.isinf(b):
        return a == b
    return abs(a - b) <= TOL * max(scale, abs(a), abs(b)) + 1e-300


STRESS_COLS = ("S_min", "S_max", "S_a", "S_m")
STRAIN_COLS = ("epsilon_min", "epsilon_max", "epsilon_a", "epsilon_m", "epsilon_min_LF", "epsilon_max_LF")


def compare_rows(got, want, label, out, ctx, tol=TOL):
    """Row by row, column by column.  Floats are compared with a tolerance
    relative to the scale of their physical quantity (all stress columns share
    one scale, all strain columns another), because means and amplitudes are
    sums/differences of the extremes.  R is a quotient that is ill-conditioned
    when S_max is close to zero: it is checked for consistency with the row's
    own S_min/S_max (which are compared with the reference) instead."""
    if len(got) != len(want):
        out.violate(label, "rows", dict(ctx, column="row-count", got=len(got), want=len(want),
                                             got_loads=[[r["loads_min"], r["loads_max"], r["run_index"]] for r in got][:30],
                                             want_loads=[[r["loads_min"], r["loads_max"], r["run_index"]] for r in want][:30]))
        return False

    def scale_of(cols):
        vals = [abs(r[k]) for r in want for k in cols if math.isfinite(r[k])]
        return max(vals) if vals else 1.0
    sc = {k: scale_of(("loads_min", "loads_max")) for k in ("loads_min", "loads_max")}
    sc.update({k: scale_of(("S_min", "S_max")) for k in STRESS_COLS})
    sc.update({k: scale_of(("epsilon_min", "epsilon_max")) for k in STRAIN_COLS})
    for i, (g, w) in enumerate(zip(got, want)):
        for k in COLS:
            if k == "R":
                if g["is_zero_mean_stress_and_strain"]:
                    ok = g["R"] == -1.0
                elif g["S_max"] == 0 or not math.isfinite(g["R"]):
                    ok = (g["S_max"] == 0) == (w["S_max"] == 0) or abs(g["S_max"] - w["S_max"]) <= tol * sc["S_max"]
                else:
                    ok = abs(g["R"] * g["S_max"] - g["S_min"]) <= 1e-12 * max(abs(g["S_min"]), abs(g["S_max"]), 1e-300) * max(1.0, abs(g["R"]))
                if not ok:
                    out.violate(label, "rows", dict(ctx, row=i, column="R", got=g["R"], S_min=g["S_min"], S_max=g["S_max"], want=w["R"]))
                    return False
                continue
            if isinstance(w[k], bool) or k == "run_index":
                ok = g[k] == w[k]
            else:
                ok = (math.isnan(g[k]) and math.isnan(w[k])) or abs(g[k] - w[k]) <= tol * sc[k]
            if not ok:
                out.violate(label, "rows", dict(ctx, row=i, column=k, got=g[k], want=w[k],
                                           loads=[w["loads_min"], w["loads_max"]], run_index=w["run_index"]))
                return False
    return True


def slice_law(law_b, node_id):
    """A single-point Binned law holding exactly the look-up table the batched
    law holds for `node_id` (so that batch and solo are comparable bit by bit;
    two separately constructed laws differ by the root finder's tolerance).
    Returns None if the internals are not as expected."""
    try:
        b = Binned.__new__(Binned)
        b._notch_approximation_law = law_b._notch_approximation_law
        b._maximum_absolute_load = float(law_b._maximum_absolute_load[node_id])
        b._number_of_bins = law_b._number_of_bins
        b._lut_primary_branch = law_b._lut_primary_branch.xs(node_id, level="node_id").copy()
        b._lut_secondary_branch = law_b._lut_secondary_branch.xs(node_id, level="node_id").copy()
        if list(b._lut_primary_branch.columns) != ["load", "strain", "stress"] or b._lut_primary_branch.index.name != "class_index":
            return None
        return b
    except Exception:     # noqa
        return None


def reference_run(lv, step, slaw, scale=1.0, passes=2):
    """Step the scalar reference over the reversal sequence of [0] + s + s."""
    s = [x * step * scale for x in lv]
    n = len(s)
    full = [0.0] + s + (s if passes == 2 else [])
    revs = rref.interior_reversals(full)
    pts = [(i, v) for i, v in revs]
    if passes == 2:
        pts.append((2 * n, full[-1]))        # the second pass flushes its last sample
    ref = HcmRef(slaw)
    for i, v in pts:
        ref.feed(v, 1 if i <= n else 2)
    return ref


def exec_c05(trace, out, log):
    lv = [int(x) for x in trace["levels"]]
    step = float(trace["step"])
    mode = trace["mode"]
    bins = int(trace["bins"])
    mat = int(trace["mat"])
    kind = trace["law"]
    big = max(abs(x) for x in lv) * step
    mf = float(trace["max_factor"])
    if mode == "K4":
        exec_c05_chunked(trace, out, log)
        return
    # benign junction required (junctions are C04's subject)
    if len(lv) < 2 or len(set(lv)) < 2 or lv[0] == lv[1] or lv[-1] == lv[-2] or \
            not ((lv[-1] - lv[-2]) * (0 - lv[-1]) < 0 and (lv[-1] - lv[-2]) * (lv[0] - lv[-1]) < 0):
        out.count("skipped:non_benign_junction")
        return
    loads = np.array([x * step for x in lv], dtype=np.float64)
    ctx = {"levels": lv, "step": step, "law": kind, "mat": mat, "bins": bins, "max_factor": mf}
    if mode in ("K1", "K3"):
        built = trace.get("law_built") or "ctor"
        law = get_law(kind, mat, big * mf, bins, built=built if built in ("set_K", "set_Kp") else "ctor")
        if built in ("set_K", "set_Kp"):
            out.count("history:law_parameters_through_setters")
        det, rec, first_rows = run_two_pass(loads, law, peek=trace.get("peek", "none"), ckpt=trace.get("ckpt", "none"))
        law = get_law(kind, mat, big * mf, bins)         # the reference evaluates a law built through the constructor
        if trace.get("ckpt", "none") != "none":
            out.count("history:checkpoint_" + trace["ckpt"])
        rows = collective_rows(rec)
        out.steps += 2
        ref = reference_run(lv, step, ScalarLaw(law))
        log.add("K1", [[r[k] for k in COLS] for r in rows], [float(x) for x in det.strain_values])
        ok = compare_rows(rows, ref.rows, "K1-reference", out, ctx)
        if ok:
            # visited strain values, per pass
            try:
                sv = [float(x) for x in det.strain_values]
                sv1 = [float(x) for x in det.strain_values_first_run]
                sv2 = [float(x) for x in det.strain_values_second_run]
            except Exception as e:   # noqa
                raise RealCodeError("strain_values", e)
            w = [e for _, e in ref.strains]
            w1 = [e for r, e in ref.strains if r == 1]
            w2 = [e for r, e in ref.strains if r == 2]
            sc = max([abs(x) for x in w] + [1e-30])
            for name, g, ww in (("strain_values", sv, w), ("strain_values_first_run", sv1, w1), ("strain_values_second_run", sv2, w2)):
                if len(g) != len(ww) or any(not _close(a, b, sc) for a, b in zip(g, ww)):
                    out.violate("K1-reference", name, dict(ctx, got=g[:40], want=ww[:40]))
                    ok = False
                    break
        ev = Counter(ref.events)
        for k, v in ev.items():
            out.count("probe:" + k, v)
        depth = 0
        if ev.get("M2", 0) >= 2:
            out.count("probe:memory2_chain")
        if ok:
            out.sigs.append("c05|%s|%s|M1_%d|M2_%d|M3_%d|rows%d" % (mode, kind, min(ev.get("M1", 0), 4), min(ev.get("M2", 0), 4),
                                                                    min(ev.get("M3", 0), 3), min(len(ref.rows), 12)))
        if mode == "K3" and ok:
            det2, rec2, _ = run_two_pass(-loads, law)
            rows2 = collective_rows(rec2)
            out.steps += 2
            out.count("twin:neg")
            mirrored = []
            for r in rows:
                m = dict(r)
                m["loads_min"], m["loads_max"] = -r["loads_max"], -r["loads_min"]
                m["S_min"], m["S_max"] = -r["S_max"], -r["S_min"]
                m["epsilon_min"], m["epsilon_max"] = -r["epsilon_max"], -r["epsilon_min"]
                m["epsilon_min_LF"], m["epsilon_max_LF"] = -r["epsilon_max_LF"], -r["epsilon_min_LF"]
                m["S_m"] = -r["S_m"] if not r["is_zero_mean_stress_and_strain"] else 0.0
                m["epsilon_m"] = -r["epsilon_m"] if not r["is_zero_mean_stress_and_strain"] else 0.0
                if r["is_zero_mean_stress_and_strain"]:
                    m["R"] = -1.0
                else:
                    m["R"] = (m["S_min"] / m["S_max"]) if m["S_max"] != 0 else float("nan")
                mirrored.append(m)
            for a, b in zip(rows2, mirrored):
                if not (math.isfinite(a["R"]) and math.isfinite(b["R"])):
                    a["R"] = b["R"] = 0.0
            log.add("K3", [[r[k] for k in COLS] for r in rows2])
            compare_rows(rows2, mirrored, "K3-negation-mirrors", out, ctx)
        return
    # ---- K2: lock-step solo replicas vs one batched replica
    nodes = [(int(i), float(r)) for i, r in trace["nodes"]]
    shared = bool(trace.get("shared_max"))
    n = len(lv)
    idx = pd.MultiIndex.from_product([range(n), [i for i, _ in nodes]], names=["load_step", "node_id"])
    vals = [lv[k] * step * r for k in range(n) for _, r in nodes]
    batch = pd.Series(vals, index=idx, dtype=np.float64)
    if trace.get("subset_of_mesh"):
        batch = cut_out_of_larger_mesh(batch, [i for i, _ in nodes])
        out.count("probe:batch_cut_out_of_larger_mesh")
    if trace.get("row_order") == "node":
        batch = node_major(batch, [i for i, _ in nodes])
        out.count("probe:node_major_rows")
    if trace.get("series_name"):
        batch = batch.rename(trace["series_name"])
    if trace.get("step_labels") in ("gapped", "offset", "unsorted", "timestamp_ns", "negative", "float_seconds"):
        batch = relabel_steps(batch, trace["step_labels"])
        out.count("probe:load_step_labels_" + trace["step_labels"])
    if shared:
        mx = max(r for _, r in nodes) * big * mf
        law_b = get_law(kind, mat, mx, bins)
    else:
        refill = trace.get("law_built") == "refill"
        law_b = get_law(kind, mat, law_nodes([(i, big * mf * r) for i, r in nodes], trace.get("law_order")), bins,
                        built="refill" if refill else "ctor")
        if refill:
            out.count("history:maxima_series_refilled_by_its_owner")
        if trace.get("law_order") in ("sorted", "reversed"):
            out.count("probe:law_node_order_" + trace["law_order"])
    detb, recb, _ = run_two_pass(batch, law_b)
    rows_b = collective_rows(recb)
    out.steps += 2
    out.count("probe:batch_nodes", len(nodes))
    log.add("K2", [[r[k] for k in COLS] for r in rows_b])
    m = len(nodes)
    for j, (nid, ratio) in enumerate(nodes):
        solo_loads = np.array([x * step * ratio for x in lv], dtype=np.float64)
        tol = TOL
        if shared:
            law_s = law_b
        else:
            law_s = slice_law(law_b, nid) if not trace.get("solo_rebuilt") else None
            if law_s is None:
                if trace.get("solo_rebuilt"):
                    # an assessment of the same point with a coarser table has run earlier in this process
                    get_law(kind, mat, big * mf * ratio, max(5, bins // 2 + 3))
                    out.count("history:same_point_binned_with_another_class_count_before")
                # separately constructed law: equal only up to the root finder's tolerance
                law_s = get_law(kind, mat, big * mf * ratio, bins)
                tol = 2e-3
                out.count("probe:solo_law_rebuilt")
        dets, recs, _ = run_two_pass(solo_loads, law_s)
        rows_s = collective_rows(recs)
        out.steps += 2
        mine = [r for r in rows_b if r["_idx"][1] == j]
        if not compare_rows(mine, rows_s, "K2-batch-equals-solo", out,
                            dict(ctx, node=nid, ratio=ratio, position=j, nodes=nodes, shared_max=shared), tol=tol):
            return
    # the same law object then serves a second assessment whose batch starts with another node
    # (a hot-spot re-run on some of the points): every point must again get what it gets alone
    if m > 1 and not trace.get("subset_of_mesh"):
        order2 = list(range(1, m)) + [0]
        nodes2 = [nodes[q] for q in order2]
        idx2 = pd.MultiIndex.from_product([range(n), [i for i, _ in nodes2]], names=["load_step", "node_id"])
        batch2 = pd.Series([lv[k] * step * r for k in range(n) for _, r in nodes2], index=idx2, dtype=np.float64)
        det2, rec2, _ = run_two_pass(batch2, law_b)
        rows_2 = collective_rows(rec2)
        out.steps += 2
        out.count("history:law_object_serves_second_batch")
        for j2, q in enumerate(order2):
            mine2 = [r for r in rows_2 if r["_idx"][1] == j2]
            first = [r for r in rows_b if r["_idx"][1] == q]
            if not compare_rows(mine2, first, "K2-batch-equals-solo", out,
                                dict(ctx, node=nodes[q][0], second_batch_order=[i for i, _ in nodes2], nodes=nodes, shared_max=shared), tol=TOL):
                return
    # hysteresis_index/assessment_point_index layout
    want_idx = [(h, a) for h in range(len(rows_b) // m) for a in range(m)]
    if [r["_idx"] for r in rows_b] != want_idx:
        out.violate("K2-batch-equals-solo", "index-layout", dict(ctx, got=[r["_idx"] for r in rows_b][:20]))
        return
    if rows_b:
        out.sigs.append("c05|K2|%s|n%d|%s|rows%d" % (kind, m, "shared" if shared else "pernode", min(len(rows_b) // m, 12)))


def _feed_chunks(law, chunks, final_flush, ckpt="none", ckpt_at=-1):
    rec = FKMNonlinearRecorder()
    try:
        det = FKMNonlinearDetector(recorder=rec, notch_approximation_law=law)
        for q, ch in enumerate(chunks):
            if q == ckpt_at and ckpt != "none":
                det = checkpoint(det, ckpt)
                rec = det.recorder
            det.process(ch, flush=(final_flush and q == len(chunks) - 1))
    except Exception as e:    # noqa
        raise RealCodeError("process(chunk)", e)
    return det, rec


def exec_c05_chunked(trace, out, log):
    lv = [int(x) for x in trace["levels"]]
    step = float(trace["step"])
    n = len(lv)
    if n < 2 or len(set(lv)) < 2:
        return
    nodes = [(int(i), float(r)) for i, r in trace["nodes"]]
    cuts = sorted({int(c) for c in trace["cuts"] if 0 < int(c) < n})
    bounds = [0] + cuts + [n]
    flush = bool(trace.get("final_flush"))
    restart = bool(trace.get("restart_load_step"))
    kind, mat, bins = trace["law"], int(trace["mat"]), int(trace["bins"])
    big = max(abs(x) for x in lv) * step
    mf = float(trace["max_factor"])
    shared = bool(trace.get("shared_max"))
    ctx = {"levels": lv, "step": step, "cuts": cuts, "nodes": nodes, "final_flush": flush, "law": kind, "mat": mat, "bins": bins}
    if shared:
        law_b = get_law(kind, mat, max(r for _, r in nodes) * big * mf, bins)
    else:
        law_b = get_law(kind, mat, law_nodes([(i, big * mf * r) for i, r in nodes], trace.get("law_order")), bins)
    chunks_b = []
    for a, b in zip(bounds[:-1], bounds[1:]):
        off = int(trace.get("label_offset") or 0)      # the recording's step counter does not start at zero
        steps_ = range(off, off + b - a) if restart else range(off + a, off + b)
        idx = pd.MultiIndex.from_product([steps_, [i for i, _ in nodes]], names=["load_step", "node_id"])
        ch = pd.Series([lv[k] * step * r for k in range(a, b) for _, r in nodes], index=idx, dtype=np.float64)
        if trace.get("chunk_row_order") and (len(chunks_b) + int(trace["chunk_row_order"])) % 3 == 0 and len(nodes) > 1:
            ch = node_major(ch, [i for i, _ in nodes])       # this block arrives grouped by node (pd.concat of per-node series)
            out.count("probe:chunk_rows_by_node")
        chunks_b.append(ch)
    ck, ck_at = trace.get("ckpt", "none"), int(trace.get("ckpt_at", -1)) % max(1, len(chunks_b))
    if ck != "none":
        out.count("history:checkpoint_" + ck)
    detb, recb = _feed_chunks(law_b, chunks_b, flush, ck, ck_at)
    rows_b = collective_rows(recb)
    out.steps += len(chunks_b)
    out.count("op:process_chunk", len(chunks_b))
    out.count("probe:chunked_batch_nodes", len(nodes))
    # was a cut placed inside or right after a dwell that is a turning point?
    revs = {i for i, _ in rref.interior_reversals([float(x) for x in lv])}
    for c in cuts:
        if lv[c - 1] == lv[c] or (c >= 2 and lv[c - 1] == lv[c - 2]):
            j = c - 1
            while j > 0 and lv[j - 1] == lv[c - 1]:
                j -= 1
            if j in revs:
                out.count("probe:cut_in_or_after_reversal_dwell")
                break
    log.add("K4", [[r[k] for k in COLS] for r in rows_b])
    m = len(nodes)
    for j, (nid, ratio) in enumerate(nodes):
        if shared:
            law_s, tol = law_b, TOL
        else:
            law_s, tol = slice_law(law_b, nid), TOL
            if law_s is None:
                law_s, tol = get_law(kind, mat, big * mf * ratio, bins), 2e-3
        chunks_s = [np.array([lv[k] * step * ratio for k in range(a, b)], dtype=np.float64) for a, b in zip(bounds[:-1], bounds[1:])]
        dets, recs = _feed_chunks(law_s, chunks_s, flush, ck, ck_at)
        rows_s = collective_rows(recs)
        out.steps += len(chunks_s)
        mine = [r for r in rows_b if r["_idx"][1] == j]
        if not compare_rows(mine, rows_s, "K2-batch-equals-solo", out, dict(ctx, node=nid, ratio=ratio, position=j, chunked=True), tol=tol):
            return
        if j == 0:
            # the solo replica of the first point against the scalar reference; pass numbers =
            # number of the process() call in which the turning point is decided
            s_ = [x * step * ratio for x in lv]
            pts = rref.interior_reversals(s_)
            runs_ = rref.runs_of(s_)
            decide = {}
            for v, a_, b_ in runs_:
                decide[a_] = b_ + 1
            ref = HcmRef(ScalarLaw(law_s))
            import bisect
            for i_, v in pts:
                call = bisect.bisect_right(bounds, decide[i_]) if decide[i_] < n else len(bounds) - 1
                ref.feed(v, call)
            if flush:
                ref.feed(s_[-1], len(bounds) - 1)
            if not compare_rows(rows_s, ref.rows, "K1-reference", out, dict(ctx, chunked=True)):
                return
            # visited strain values: all, those of the first process() call, those of the later calls
            try:
                sv = [float(x) for x in dets.strain_values]
                sv1 = [float(x) for x in dets.strain_values_first_run]
                sv2 = [float(x) for x in dets.strain_values_second_run]
            except Exception as e:   # noqa
                raise RealCodeError("strain_values", e)
            w = [e for _, e in ref.strains]
            w1 = [e for r, e in ref.strains if r == 1]
            w2 = [e for r, e in ref.strains if r != 1]
            sc = max([abs(x) for x in w] + [1e-30])
            for name, g, ww in (("strain_values", sv, w), ("strain_values_first_run", sv1, w1), ("strain_values_second_run", sv2, w2)):
                if len(g) != len(ww) or any(abs(a - b) > TOL * sc for a, b in zip(g, ww)):
                    out.violate("K1-reference", name, dict(ctx, chunked=True, got=g[:40], want=ww[:40]))
                    return
    if rows_b:
        out.sigs.append("c05|K4|%s|n%d|chunks%d|rows%d|%s" % (kind, m, min(len(chunks_b), 6), min(len(rows_b) // m, 10), "flush" if flush else "noflush"))


# ------------------------------------------------------------------ shrink / classify / describe

def shrink(prop, trace):
    lv = trace["levels"]
    n = len(lv)
    if trace.get("twin"):
        t = copy.deepcopy(trace)
        t["twin"] = None
        yield t
    if trace.get("twin2"):
        t = copy.deepcopy(trace)
        t["twin2"] = None
        yield t
        if trace.get("shared_recorder"):
            t = copy.deepcopy(trace)
            t["shared_recorder"] = False
            yield t
        if trace.get("same_buffer"):
            t = copy.deepcopy(trace)
            t["same_buffer"] = False
            yield t
        if trace["twin2"] != "reversals":
            t = copy.deepcopy(trace)
            t["twin2"] = "reversals"
            yield t
    for cand in core.drop_chunks(lv, 2):
        t = copy.deepcopy(trace)
        t["levels"] = cand
        if t.get("twin"):
            t["twin"] = None
        if t.get("twin2") and t["twin2"] != "reversals":
            t["twin2"] = "reversals"        # a twin that follows the shrunk sequence
        yield t
    if trace.get("twin2") and trace["twin2"] != "reversals":
        for cand in core.drop_chunks(trace["twin2"], 2):
            t = copy.deepcopy(trace)
            t["twin2"] = cand
            yield t
    if trace.get("twin"):
        for cand in core.drop_chunks(trace["twin"], 2):
            t = copy.deepcopy(trace)
            t["twin"] = cand
            yield t
    if trace.get("cuts"):
        for cand in core.drop_chunks(trace["cuts"], 1):
            t = copy.deepcopy(trace)
            t["cuts"] = cand
            yield t
    if trace.get("batch"):
        t = copy.deepcopy(trace)
        t["batch"] = None
        yield t
        if len(trace["batch"]) > 1:
            for cand in core.drop_chunks(trace["batch"], 1):
                t = copy.deepcopy(trace)
                t["batch"] = cand
                yield t
    if trace.get("nodes") and len(trace["nodes"]) > 1:
        for cand in core.drop_chunks(trace["nodes"], 1):
            t = copy.deepcopy(trace)
            t["nodes"] = cand
            yield t
    for key, simple in (("law", "EN"), ("mat", 0), ("step", 100.0), ("bins", 20), ("peek", "none"), ("container", "f64"), ("ckpt", "none"), ("label_offset", 0), ("law_built", "ctor")):
        if trace.get(key) != simple:
            t = copy.deepcopy(trace)
            t[key] = simple
            yield t
    # smaller magnitudes
    for i in range(n):
        x = lv[i]
        for new in (x - 1 if x > 0 else x + 1, x // 2):
            if new != x and abs(new) < abs(x):
                t = copy.deepcopy(trace)
                t["levels"][i] = new
                yield t
    g = 0
    for x in lv:
        g = math.gcd(g, abs(x))
    if g > 1:
        t = copy.deepcopy(trace)
        t["levels"] = [x // g for x in lv]
        if t.get("twin"):
            t["twin"] = None
        yield t


def classify(prop, trace, v):
    sig = "%s/%s" % (v["oracle"], v["component"])
    if prop == "C04" and v["oracle"].startswith("J1") and v["component"] == "second-pass" and "missing" in v["detail"]:
        d = v["detail"]
        lv = [int(x) for x in d["levels"]]
        step = float(d["step"])
        k = _c04_known_configuration(lv, step, d["missing"], d["surplus"])
        if k:
            return "J1/" + k
    return sig


def _cycles_closed_by_last(lv):
    """Multiset of (min, max) level pairs of the cycles that the last sample
    closes in the steady state (it must be a reversal of the repeated sequence)."""
    rev = per.cyclic_reversals(lv)
    last = lv[-1]
    if not rev or last not in rev:
        return Counter()
    # rotate so that the period ends with the last sample of the sequence
    comp = [x for i, x in enumerate(lv) if i == 0 or lv[i - 1] != x]
    wrapped = False
    while len(comp) > 1 and comp[0] == comp[-1]:
        comp.pop()               # plateau across the junction: the last sample lives in comp[0]
        wrapped = True
    if wrapped:
        comp = comp[1:] + comp[:1]
    # index in rev of the reversal that is the last sample: the final reversal in sequence order
    seq_rev = []
    m = len(comp)
    for i in range(m):
        a, b, c = comp[i - 1], comp[i], comp[(i + 1) % m]
        if (b - a) * (c - b) < 0:
            seq_rev.append(b)
    if not seq_rev or seq_rev[-1] != last:
        return Counter()
    pts = list(enumerate(seq_rev * 3))
    before, _ = rref.four_point(pts[:-1])
    after, _ = rref.four_point(pts)
    closed = after[len(before):]
    return Counter((min(a, b), max(a, b)) for a, b, _, _ in closed)


def _c04_known_configuration(lv, step, missing, surplus):
    """Finding-specific classifier (DESIGN 6): computed from the sequence and the
    observed surplus alone.

    F-C04-4: the last sample (looking through a trailing plateau) is a reversal
    of the repeated sequence but not a turning point if a zero load followed;
    pass 1 defers it, pass 2 processes it first and flushes it last, so pass 2
    covers one period plus one reversal and the cycles which that sample closes
    are counted twice: nothing is missing and the surplus consists only of
    cycles closed by the last sample."""
    last = lv[-1]
    if missing or not surplus:
        return None
    if not per.is_periodic_reversal_last(lv) or turn_at_zero_junction(lv):
        return None
    closed = Counter({(a * step, b * step): n for (a, b), n in _cycles_closed_by_last(lv).items()})
    sur = Counter((float(a), float(b)) for a, b in surplus)
    if all(closed.get(k, 0) >= n for k, n in sur.items()):
        return "deferred-true-reversal-processed-twice"
    return None


def describe(prop):
    real = ["pylife.stress.rainflow.fkm_nonlinear.FKMNonlinearDetector (process_hcm_first/second), recorders.FKMNonlinearRecorder",
            "pylife.materiallaws Binned(ExtendedNeuber) and Binned(SeegerBeste)", "general.find_turns/_new_turns"]
    if prop == "C04":
        return {"level": "exploration", "real": real,
                "stub": ["load-sequence source with junction-configuration swarm", "pass driver", "injected non-reversal samples",
                         "models/periodic_rainflow.py (closed-loop four-point counting of the periodic reversal sequence)"],
                "rule": ("one run = one seeded load sequence on an integer grid (2..~30 samples; swarm over junction configurations: last sample a periodic reversal or not, signs of first/last, last strictly between 0 and first, "
                         "leading/trailing plateau, largest |load| only at the end, non-reversal last sample passing older reversals, zeros; 45% with injected duplicate/intermediate samples incl. after the last and before the first sample), "
                         "history process_hcm_first(s), process_hcm_second(s); J1: multiset of second-pass (loads_min, loads_max) == closed-loop rainflow of the periodic reversal sequence; J2: Memory-3 rows only in pass 1 and symmetric; "
                         "J3 (30% of runs): twin with interior non-reversal samples has the same per-pass multisets. distinct_nontrivial counts distinct (junction class, cycle-count bucket, Memory-3 count)."),
                "assumptions": ["loads are integer multiples of a step, far from the code's 1e-12 guards", "models/periodic_rainflow.py is trusted",
                                "multisets of load pairs are compared, not row order"],
                "required_probes": ["junction:norev", "junction:between", "junction:tplat", "junction:lplat", "junction:maxend", "junction:nozturn",
                                    "probe:memory3_rows", "fault:interior_refinement", "probe:batched_history", "history:collective_read_early"]}
    return {"level": "exploration", "real": real,
            "stub": ["load-sequence source (benign junctions, adversarial nesting)", "pass driver", "models/hcm_ref.py: scalar HCM (primary/secondary branch, Memory 1-3) calling the same law object through its scalar interface",
                     "lock-step solo replicas for the batch comparison"],
            "rule": ("one run = one seeded load sequence with a benign junction, one law (ExtendedNeuber|SeegerBeste, 4 material sets, 20-200 bins, class-edge or off-edge maximum), mode K1: every column of recorder.collective and the visited strain values "
                     "(all, first run, second run) equal the scalar reference stepped over the reversals of [0]+s+s; K2: 1-5 proportional points processed in one batched replica (per-node or shared binning maxima, arbitrary node ids) "
                     "equal their solo replicas row by row; K3: the replica fed -s mirrors stresses/strains; K4 (22% of runs): a raw history of process(chunk[, flush]) calls with dwells and cuts aimed at them on a batched replica equals the solo replicas under the same chunking, and the first solo replica equals the reference. distinct_nontrivial counts distinct (mode, law, Memory-1/2/3 event counts, row count) resp. (batch size, binning mode, row count)."),
            "assumptions": ["benign junctions only (junctions are C04's subject)", "floats compared to 1e-9 relative to the column scale; flags and pass numbers exactly",
                            "K2 uses binning maxima that keep every load, load difference and doubled load off the class edges for every node (the batch picks the class from its first node)",
                            "models/hcm_ref.py is trusted; the law's scalar and Series interfaces are assumed to agree (checked indirectly by K1)"],
            "required_probes": ["probe:law_node_order_sorted", "probe:M1", "probe:M2", "probe:M3", "probe:memory2_chain", "probe:batch_nodes", "twin:neg", "op:process_chunk", "probe:cut_in_or_after_reversal_dwell"]}


_canary_law = []


def canary():
    """A fresh detector and recorder on a fixed sequence with a law object built once at process start."""
    if not _canary_law:
        _canary_law.append(Binned(ExtendedNeuber(206e3, 2650.0, 0.187, 3.5), 1073.1, 20))
    det, rec, _ = run_two_pass(np.array([100.0, -300.0, 200.0, -400.0, 500.0, -100.0]), _canary_law[0])
    rows = collective_rows(rec)
    return [[r[k] for k in COLS] for r in rows] + [[float(x) for x in det.strain_values]]

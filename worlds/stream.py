"""World "stream": rainflow detectors as stream consumers (C01, C02, C03).

real: ThreePointDetector, FourPointDetector, FKMDetector, find_turns,
      AbstractDetector._new_turns, LoopValueRecorder, FullRecorder,
      chunk_local_index, threepoint_loop / fourpoint_loop (rebuilt kernel).
stub: signal source, delivery channel (chunking), scheduler, stream faults.
"""
import math
import warnings
from collections import Counter

import numpy as np
import pandas as pd

from sim import core
from sim.core import Outcome, Log, RealCodeError
from models import rainflow_ref as ref

import pylife.stress.rainflow as RF
from pylife.stress.rainflow.general import find_turns

NAME = "stream"

PROPS = {
    "C01": {"quick": {"runs": 60000, "budget_s": 55, "batch": 200},
            "thorough": {"runs": 600000, "budget_s": 1100, "batch": 250, "det_pool": 200, "det_fresh": 40}},
    "C02": {"quick": {"runs": 60000, "budget_s": 55, "batch": 200},
            "thorough": {"runs": 700000, "budget_s": 1100, "batch": 250, "det_pool": 200, "det_fresh": 40}},
    "C03": {"quick": {"runs": 120000, "budget_s": 55, "batch": 400},
            "thorough": {"runs": 600000, "budget_s": 1100, "batch": 250, "det_pool": 200, "det_fresh": 40}},
}

class ProbeRecorder(RF.AbstractRecorder):
    """A user-written recorder (the package documents that detectors and recorders can be combined
    freely): it keeps what the detector reports through record_values / record_index / report_chunk."""

    def __init__(self):
        super().__init__()
        self.vf, self.vt, self.xf, self.xt = [], [], [], []
        self.calls = []

    def record_values(self, values_from, values_to):
        a, b = [float(x) for x in values_from], [float(x) for x in values_to]
        self.calls.append(("values", len(a), len(b)))
        self.vf += a
        self.vt += b

    def record_index(self, index_from, index_to):
        a, b = [float(x) for x in index_from], [float(x) for x in index_to]
        self.calls.append(("index", len(a), len(b)))
        self.xf += a
        self.xt += b

    def __len__(self):
        return len(self.vf)         # the number of loops recorded so far (0 while the recorder is new)

    values_from = property(lambda self: self.vf)
    values_to = property(lambda self: self.vt)
    index_from = property(lambda self: self.xf)
    index_to = property(lambda self: self.xt)


class LazyRecorder(RF.AbstractRecorder):
    """A user-written recorder that keeps the reported batches as they are handed over and only
    concatenates them when asked (what is reported must stay what it was when it was reported)."""

    def __init__(self):
        super().__init__()
        self.batches_v, self.batches_i = [], []

    def record_values(self, values_from, values_to):
        self.batches_v.append((values_from, values_to))

    def record_index(self, index_from, index_to):
        self.batches_i.append((index_from, index_to))

    def _cat(self, batches, k):
        return [float(x) for b in batches for x in np.asarray(b[k]).reshape(-1)]

    values_from = property(lambda self: self._cat(self.batches_v, 0))
    values_to = property(lambda self: self._cat(self.batches_v, 1))
    index_from = property(lambda self: self._cat(self.batches_i, 0))
    index_to = property(lambda self: self._cat(self.batches_i, 1))


class CascadeRecorder(ProbeRecorder):
    """A user-written recorder that works while it is being called: it looks the reported indices up in the
    chunk bookkeeping at once (to fetch a second channel for the loop limits), and it forwards every batch of
    loops to a second, independent detector (cascaded counting).  The callbacks are the only points at which
    user code runs inside process(); whatever runs there may not disturb the detector that called."""

    def __init__(self):
        super().__init__()
        self.lookups = []
        self.sinks = [RF.FourPointDetector(recorder=RF.LoopValueRecorder()), RF.ThreePointDetector(recorder=RF.LoopValueRecorder())]
        self.n_batches = 0

    def record_values(self, values_from, values_to):
        super().record_values(values_from, values_to)
        a, b = np.asarray(values_from, dtype=np.float64).reshape(-1), np.asarray(values_to, dtype=np.float64).reshape(-1)
        if len(a) and len(a) == len(b):
            self.n_batches += 1
            block = np.concatenate(((a + b) / 2.0, [float(self.n_batches % 5), -3.0, 4.0, -1.0, 2.5]))
            self.sinks[self.n_batches % 2].process(block)

    def record_index(self, index_from, index_to):
        super().record_index(index_from, index_to)
        g = [int(x) for x in index_from] + [int(x) for x in index_to]
        if g:
            cn, cl = self.chunk_local_index(np.asarray(g, dtype=np.int64))
            self.lookups += [[gi, int(k), int(j)] for gi, k, j in zip(g, np.atleast_1d(cn), np.atleast_1d(cl))]


DETS = {"tp": RF.ThreePointDetector, "fp": RF.FourPointDetector, "fkm": RF.FKMDetector}
RECS = {"full": RF.FullRecorder, "value": RF.LoopValueRecorder, "probe": ProbeRecorder, "lazy": LazyRecorder, "cascade": CascadeRecorder}


# ------------------------------------------------------------------ source

def _seg_walk(rng, n, amp):
    return [float(rng.randint(-amp, amp)) for _ in range(n)]


def _seg_zigzag(rng, n, amp):
    out = []
    grow = rng.random() < 0.5
    sign = rng.choice([-1, 1])
    for k in range(n):
        a = (k + 1) if grow else (n - k)
        a = a if rng.random() < 0.8 else max(1, a - 1)   # equal ranges now and then
        out.append(float(sign * a + rng.choice([0, 0, 0, 1])))
        sign = -sign
    return out


def _seg_monotone(rng, n, amp):
    x = rng.randint(-amp, amp)
    d = rng.choice([-1, 1])
    out = []
    for _ in range(n):
        out.append(float(x))
        x += d * rng.choice([0, 1, 1, 2])
    return out


def _seg_extremes(rng, n, amp):
    hi, lo = float(amp), float(-amp)
    out = []
    for _ in range(n):
        r = rng.random()
        out.append(hi if r < 0.25 else lo if r < 0.5 else float(rng.randint(-amp + 1, amp - 1)))
    return out


def _seg_float(rng, n, amp):
    return [rng.uniform(-amp, amp) for _ in range(n)]


def _seg_const(rng, n, amp):
    return [float(rng.randint(-amp, amp))] * n


def _seg_decay(rng, n, amp):
    """A decaying (or growing) oscillation: every half wave stays open, the residual stack gets as deep as the segment is long."""
    out = []
    sign = rng.choice([-1, 1])
    grow = rng.random() < 0.3
    for k in range(n):
        a = (k + 1) if grow else (n - k)
        out.append(float(sign * a) * 0.5)
        sign = -sign
    return out


SEGS = [_seg_walk, _seg_walk, _seg_zigzag, _seg_monotone, _seg_extremes, _seg_float, _seg_const, _seg_decay]


def gen_signal(rng, min_len=1, max_len=80):
    r = rng.random()
    if max_len == 80 and rng.random() < 0.0006:
        # thousands of tiny unequal chunks (chunk book-keeping over a long streaming session)
        n_big = rng.choice([9000, 12000])
        sig = [float(rng.randint(-9, 9)) for _ in range(n_big)]
        return sig
    if max_len == 80 and rng.random() < 0.0006:
        # a hold time of tens of thousands of samples at an extreme, in the middle of an ordinary signal
        head = [float(rng.randint(-5, 5)) for _ in range(rng.randint(3, 12))]
        peak = max(head) + 3.0 if rng.random() < 0.5 else min(head) - 3.0
        tail = [float(rng.randint(-5, 5)) for _ in range(rng.randint(3, 12))]
        return head + [peak] * rng.choice([17000, 33000, 40000]) + tail
    if max_len == 80 and rng.random() < 0.0015:
        # a ring-down of thousands of half waves (every one of them stays open), then a swing beyond all of them
        # and a few more samples: thousands of nested loops close in one call, far down the residual stack
        n_half = rng.choice([4100, 4500, 6000, 9000])
        grow = rng.random() < 0.25
        sgn = rng.choice([-1.0, 1.0])
        sig = []
        for k in range(n_half):
            a = (k + 1) if grow else (n_half - k)
            sig.append(sgn * a * 0.5)
            sgn = -sgn
        if not grow:
            # the swing, then either a few samples or another short ring-down (open loops again on top of the swing)
            tail = [0.0, 1.0, -1.0] if rng.random() < 0.4 else [-sgn * 3.0, sgn * 2.5, -sgn * 2.0, sgn * 1.5, -sgn * 1.0, sgn * 0.5]
            sig += [sgn * (n_half + 2) * 0.5] + tail[:rng.randint(0, len(tail))]
        else:
            sig = [-sig[-1] * 1.01] + sig + [0.25, -0.25][:rng.randint(0, 2)]
        return sig
    if max_len == 80 and rng.random() < 0.0007:
        # very rarely a really long recording (block sizes, 16-bit counters): held levels everywhere
        n_big = rng.choice([66000, 70000, 132000])
        vals = [float(rng.randint(-9, 9)) for _ in range(n_big // 2)]
        sig = []
        for v in vals:
            sig += [v] * rng.choice([1, 2, 2, 3])
        return sig[:n_big]
    if max_len == 80 and rng.random() < 0.02:
        max_len = rng.choice([300, 1200, 2500])     # a few long signals per batch (deep stacks, many chunks)
        r = 0.99
    if r < 0.06:
        n_target = rng.randint(min_len, max(min_len, 3))
    elif r < 0.55:
        n_target = rng.randint(max(min_len, 3), 16)
    else:
        n_target = rng.randint(max(min_len, 8), max_len)
    amp = rng.choice([1, 2, 3, 3, 5, 8, 20])
    sig = []
    while len(sig) < n_target:
        seg = rng.choice(SEGS)
        m = rng.randint(1, max(1, min(25 if n_target <= 200 else 200, n_target - len(sig))))
        sig += seg(rng, m, amp)
    sig = sig[:n_target]
    if n_target > 200 and rng.random() < 0.5:
        # slowly growing envelope: residual stack keeps growing, extremes are re-visited after many chunks
        sig = [x * (1.0 + (i // 50)) for i, x in enumerate(sig)]
    # plateaus: repeat samples
    if rng.random() < 0.45:
        p = rng.choice([0.1, 0.3, 0.6])
        out = []
        for x in sig:
            out.append(x)
            while rng.random() < p and len(out) < max_len:
                out.append(x)
        sig = out[:max_len]
    if rng.random() < 0.1 and len(sig) < max_len:    # leading / trailing plateau
        sig = [sig[0]] * rng.randint(1, 3) + sig
    if rng.random() < 0.1 and len(sig) < max_len:
        sig = sig + [sig[-1]] * rng.randint(1, 3)
    r = rng.random()
    if r < 0.1:
        off = rng.choice([100.0, -37.0, 0.5, 1e6])
        sig = [x + off for x in sig]
    elif r < 0.2:
        # number representation: decimal grids (equal values, equal ranges, but no exact binary/float32
        # representation), magnitudes beyond 2**24, strain-like tiny amplitudes
        kind = rng.choice(["decimal", "decimal", "decimal_prefix", "big", "tiny", "pa", "ultra"])
        if kind == "decimal":
            sig = [round(x) * 0.1 for x in sig]
        elif kind == "decimal_prefix":
            # the first part on a 0.1 grid (no float32 representation), the rest whole numbers (a re-scaled channel)
            q = rng.randint(1, max(1, len(sig) - 1))
            sig = [round(x) * 0.1 for x in sig[:q]] + [float(round(x)) for x in sig[q:]]
        elif kind == "big":
            sig = [float(2 ** 24 + round(x)) for x in sig] if rng.random() < 0.5 else [float(round(x)) * 100000001.0 for x in sig]
        elif kind == "tiny":
            sig = [x * 1e-3 / 7.0 for x in sig]
        elif kind == "ultra":
            # finite is finite: magnitudes near the ends of the double range, or an exponentially damped oscillation
            # whose late cycles are hundreds of orders of magnitude smaller than its first ones
            m = rng.choice(["small", "large", "damped", "wide", "subnormal"])
            if m == "small":
                sig = [x * 2.0 ** -600 for x in sig]
            elif m == "subnormal":
                # whole multiples of the smallest positive double: every value and every range is exact
                sig = [float(round(x)) * 2.0 ** -1074 for x in sig]
            elif m == "large":
                sig = [x * 2.0 ** 500 for x in sig]
            elif m == "wide":
                # from the top of the double range to its bottom within one recording
                sig = [x * 2.0 ** (500 - 17 * i) for i, x in enumerate(sig)][:66]
            else:
                sig = [x * 2.0 ** (-12 * i) for i, x in enumerate(sig)][:70]
        else:
            sig = [round(x) * 1.0e5 + 0.3 for x in sig]
    elif r < 0.27 and len(sig) > 2:
        # nearly equal (not equal) neighbours next to larger steps: sensor noise on a plateau or an extremum
        eps = rng.choice([1e-9, 1e-10, 3e-9, 1e-12, "ulp", "ulp"])
        out = []
        for x in sig:
            out.append(x)
            if rng.random() < 0.3:
                if eps == "ulp":
                    # the neighbouring double: ranges that differ by less than the rounding of a subtraction
                    out.append(float(np.nextafter(x, math.inf if rng.random() < 0.5 else -math.inf)))
                else:
                    out.append(x + rng.choice([-1, 1]) * eps * rng.choice([1, 2, 0.5]))
        if eps == "ulp" and len(out) > 3:
            # ... also between a sample and a LATER one (an extreme re-visited one ulp off)
            for _ in range(rng.randint(1, 3)):
                i_ = rng.randrange(len(out) - 2)
                j_ = rng.randrange(i_ + 2, len(out))
                out[j_] = float(np.nextafter(out[i_], math.inf if rng.random() < 0.5 else -math.inf))
        sig = out
    if rng.random() < 0.08:
        flip = rng.random() < 0.5
        out = []
        for x in sig:                                   # negative zeros are zeros; neighbours 0.0, -0.0 form a plateau
            if x == 0:
                flip = (not flip) if rng.random() < 0.7 else flip
                out.append(-0.0 if flip else 0.0)
            else:
                out.append(x)
        sig = out
    return sig[:max(max_len, min_len)]


# ------------------------------------------------------------------ structure

def structure(sig):
    """Turning structure of the whole signal, used to aim chunk borders."""
    runs = ref.runs_of(sig)
    rev = set()
    kind_of_run = []
    for j, (v, a, b) in enumerate(runs):
        is_rev = 0 < j < len(runs) - 1 and ((v > runs[j - 1][0] and runs[j + 1][0] < v) or (v < runs[j - 1][0] and runs[j + 1][0] > v))
        kind_of_run.append(is_rev)
        if is_rev:
            rev.add(a)
    return runs, kind_of_run, rev


def border_kind(b, sig, runs, kind_of_run, rev, run_of):
    if run_of[b - 1] == run_of[b]:
        return "in-rev-plateau" if kind_of_run[run_of[b]] else "in-slope-plateau"
    if b in rev:
        return "before-turn"
    j = run_of[b - 1]
    if kind_of_run[j]:
        return "after-turn"
    return "monotone"


def gen_cuts(rng, sig):
    n = len(sig)
    if n < 2:
        return []
    if 8000 < n < 13000 and rng.random() < 0.7:
        # streamed in thousands of chunks of 1-4 samples
        cuts, pos = [], 0
        while True:
            pos += rng.randint(1, 4)
            if pos >= n:
                break
            cuts.append(pos)
        return cuts
    if n > 4000:
        # a really long recording: a handful of big blocks, some borders next to powers of two
        cuts = {rng.randint(1, n - 1) for _ in range(rng.randint(1, 4))}
        if rng.random() < 0.6:
            cuts.add(n - rng.randint(5, 400))           # a border shortly before the end of the recording
        if rng.random() < 0.5:
            cuts |= set(range(4096, n, 4096))           # regular big blocks as well
        for base in (1 << 15, 1 << 16, 1 << 17):
            if base < n - 2 and rng.random() < 0.5:
                cuts.add(base + rng.choice([-1, 0, 1, 2]))
        return sorted(cuts)
    mode = rng.choice(["ones", "rand", "rand", "adv", "adv", "adv", "few", "few"])
    if mode == "ones":
        return list(range(1, n))
    if mode == "rand":
        p = rng.choice([0.1, 0.3, 0.6])
        return [b for b in range(1, n) if rng.random() < p]
    if mode == "few":
        k = rng.randint(1, min(3, n - 1))
        return sorted(rng.sample(range(1, n), k))
    runs, kinds, rev = structure(sig)
    cuts = set()
    q = rng.choice([0.3, 0.6, 1.0])
    for j, (v, a, b) in enumerate(runs):
        if kinds[j] or (b > a and rng.random() < 0.5):
            if rng.random() < q:
                for _ in range(rng.randint(1, 3)):
                    c = rng.choice([a - 1, a, a + 1, a + 2, b, b + 1, b + 2, rng.randint(a, b) + 1])
                    if 1 <= c <= n - 1:
                        cuts.add(c)
    if not cuts:
        cuts.add(rng.randint(1, n - 1))
    return sorted(cuts)


# ------------------------------------------------------------------ real-code calls

def _narrow_dtype(sig, kind):
    """A dtype that represents every sample of the whole signal exactly, or None."""
    arr = np.asarray(sig, dtype=np.float64)
    if kind == "f32":
        with np.errstate(over="ignore", under="ignore"):
            return np.float32 if np.array_equal(arr.astype(np.float32).astype(np.float64), arr) else None
    if not np.array_equal(np.round(arr), arr):
        return None
    lo, hi = float(arr.min()), float(arr.max())
    for dt in ((np.uint8, np.uint16, np.uint32) if lo >= 0 else ()) + (np.int8, np.int16, np.int32, np.int64):
        info = np.iinfo(dt)
        if info.min <= lo and hi <= info.max:
            # deterministic pick among the fitting dtypes: the narrowest one, or a wider one
            return dt
    return None


def _mk(det, rec, prefill=None):
    """prefill: loops counted earlier (resumed counting): the owner of the recorder puts them in through the
    public record_values / record_index before the detector is attached - as the whole numbers they are."""
    try:
        r = RECS[rec]()
        if prefill and rec in ("full", "value"):
            r.record_values(np.array([int(p[0]) for p in prefill], dtype=np.int64), np.array([int(p[1]) for p in prefill], dtype=np.int64))
            if rec == "full":
                r.record_index(np.array([int(p[2]) for p in prefill], dtype=np.uintp), np.array([int(p[3]) for p in prefill], dtype=np.uintp))
            r.verif_prefill = [[float(x) for x in p] for p in prefill]
        return DETS[det](recorder=r)
    except Exception as e:     # noqa
        raise RealCodeError("construct " + det, e)


def _strip_prefill(r, cols):
    """cols: {name: list}; takes the prefilled loops off the front and says whether they are still what was put in."""
    pre = getattr(r, "verif_prefill", None)
    if not pre:
        return True
    k = len(pre)
    ok = True
    for j, name in enumerate(("from", "to", "ifrom", "ito")):
        if name in cols:
            ok = ok and cols[name][:k] == [p[j] for p in pre]
            cols[name] = cols[name][k:]
    return ok


def _feed(d, chunk, flush=False):
    try:
        if flush and len(chunk) % 2:
            d.flush(chunk)                  # the documented shorthand for process(chunk, flush=True)
        elif flush:
            d.process(chunk, flush=True)
        else:
            d.process(chunk)
    except Exception as e:     # noqa
        raise RealCodeError("process", e)


def observe(d, det, rec):
    """What the user can see, as plain lists (dtypes are not part of C01)."""
    try:
        r = d.recorder
        o = {"from": [float(x) for x in r.values_from], "to": [float(x) for x in r.values_to],
             "res": [float(x) for x in d.residuals]}
        if det != "fkm":
            o["ridx"] = [float(x) for x in d.residual_index]
            o["chunks"] = [int(x) for x in r.chunks]
            if rec in ("full", "probe", "lazy", "cascade"):
                o["ifrom"] = [float(x) for x in r.index_from]
                o["ito"] = [float(x) for x in r.index_to]
        if not _strip_prefill(r, o):
            o["protocol"] = ["prefilled-loops-changed"]
        if rec == "cascade" and det != "fkm":
            o["lookups"] = [list(x) for x in r.lookups]
        if rec in ("probe", "cascade"):
            # every report must be self-consistent: as many 'to' as 'from'; indices for exactly the reported loops
            for kind_, n1, n2 in r.calls:
                if n1 != n2:
                    o["protocol"] = [kind_, n1, n2]
            if det != "fkm" and len(o["ifrom"]) != len(o["from"]):
                o["protocol"] = ["index-count", len(o["ifrom"]), len(o["from"])]
        return o
    except Exception as e:     # noqa
        raise RealCodeError("observe", e)


def collective_consistent(d, o, rec):
    """recorder.collective (a DataFrame view of the same recording) must show what the arrays show."""
    try:
        c = d.recorder.collective
        got = {"from": [float(x) for x in c["from"].to_numpy()], "to": [float(x) for x in c["to"].to_numpy()]}
        if rec == "full":
            got["ifrom"] = [float(x) for x in c["index_from"].to_numpy()]
            got["ito"] = [float(x) for x in c["index_to"].to_numpy()]
        _strip_prefill(d.recorder, got)
        # the frame handed out belongs to the caller: orienting / clipping it in place may not reach the recorder
        if len(c):
            c.iloc[:, 0] = 777.0
            c.loc[:, "to"] = -777.0
    except Exception as e:     # noqa
        raise RealCodeError("collective", e)
    for k, v in got.items():
        if k in o and o[k] != v:
            return k, v
    return None


def _extended(sig, a, b):
    """Samples a..b as numpy.longdouble with a ripple far below the resolution of a double on top (a function of
    the sample number, so that every delivery of the same samples is the same): for |x| < 32 on a grid of 1/8 the
    sums are exact in the 64-bit mantissa of the x87 extended format, and are no doubles."""
    x = np.array(sig[a:b], dtype=np.longdouble)
    if np.finfo(np.longdouble).nmant < 63 or not len(x):
        return x
    plain = np.array(sig[a:b], dtype=np.float64)
    with np.errstate(over="ignore", invalid="ignore"):
        ok = (np.abs(plain) < 32.0) & (np.round(plain * 8.0) == plain * 8.0)       # sample by sample: never depends on the slice
    k = (np.arange(a, b, dtype=np.int64) * 7919) % 5 - 2
    x[ok] = x[ok] + k[ok].astype(np.longdouble) * np.longdouble(2.0) ** -56
    return x


def one_piece(det, rec, prefix, flush=False, dtype=None):
    d = _mk(det, rec)
    arr = np.array(prefix, dtype=np.float64)
    if dtype == "longdouble":
        arr, dtype = _extended(prefix, 0, len(prefix)), None
    if dtype is not None:
        arr = arr.astype(dtype)
    _feed(d, arr, flush)
    return d, observe(d, det, rec)


def first_diff(a, b):
    for k in sorted(set(a) | set(b)):
        if a.get(k) != b.get(k):
            return k
    return None


# ------------------------------------------------------------------ generate

MARATHON_RATE = {"C01": 1.0 / 15000, "C02": 1.0 / 40000, "C03": 1.0 / 60000}


def generate(prop, rng, tier):
    if tier == "thorough" and rng.random() < MARATHON_RATE[prop]:
        return generate_marathon(prop, rng)
    if prop == "C03":
        return generate_c03(rng, tier)
    min_len = 1 if prop == "C01" else 2
    sig = gen_signal(rng, min_len=min_len)
    n_rep = rng.choice([1, 2, 2, 3, 3, 4])
    reps = []
    for _ in range(n_rep):
        det = rng.choice(["tp", "fp", "fkm"])
        reps.append({"det": det, "rec": rng.choice(["full", "full", "value", "probe", "lazy", "cascade"]),
                     "cuts": gen_cuts(rng, sig),
                     "container": rng.choice(["ndarray", "ndarray", "ndarray", "list", "series", "strided", "readonly", "int", "int", "f32", "mixed"])})
    for rp in reps:
        if prop == "C01" and rp["det"] == "fkm" and rng.random() < 0.15:
            rp["container"] = "longdouble"
        if rp["rec"] in ("full", "value") and rng.random() < 0.15:
            rp["prefill"] = [[rng.randint(-9, 9), rng.randint(-9, 9), rng.randint(0, 50), rng.randint(0, 50)] for _ in range(rng.randint(1, 3))]
    order = []
    for r, rp in enumerate(reps):
        order += [r] * (len(rp["cuts"]) + 1)
    mode = rng.choice(["shuffle", "shuffle", "roundrobin", "sequential"])
    if mode == "shuffle":
        rng.shuffle(order)
    elif mode == "roundrobin":
        left = Counter(order)
        order = []
        while left:
            for r in sorted(left):
                order.append(r)
                left[r] -= 1
                if not left[r]:
                    del left[r]
    tr = {"world": NAME, "signal": sig, "replicas": reps, "order": order}
    if prop == "C02":
        tr["spec_dtype"] = rng.choice([None, None, "int", "f32"])
        tr["scribble"] = rng.random() < 0.2
        if rng.random() < 0.25:
            # the old-style counters (wrappers around the same detectors), fed in chunks, loops read between the calls
            tr["compat"] = {"cuts": sorted(rng.random() for _ in range(rng.choice([0, 1, 1, 2, 3]))), "peek": rng.random() < 0.6}
    tr["refuse"] = rng.randint(1, 3) if rng.random() < 0.12 else 0
    tr["mid_flush"] = rng.random() < 0.2
    if prop == "C01":
        tr["final_flush"] = rng.random() < 0.25
        tr["scribble"] = rng.random() < 0.3
        tr["doubling"] = rng.random() < 0.25
    return tr


# ------------------------------------------------------------------ execute C01 / C02

def execute(prop, trace):
    if trace.get("marathon"):
        return execute_marathon(prop, trace)
    if prop == "C03":
        return execute_c03(trace)
    out = _execute(prop, trace)
    if out.violations and trace.get("scribble"):
        # Buffer re-use (a streaming reader with one pre-allocated buffer overwrites it after
        # process() returned).  A divergence that needs the overwrite means the detector kept a
        # view of caller-owned memory: the signal WAS fed chunk by chunk and the result differs
        # from one piece, so it is reported - with a component of its own so that it is attributable.
        t2 = dict(trace)
        t2["scribble"] = False
        out2 = _execute(prop, t2)
        if not out2.violations:
            out.count("probe:aliasing_divergence")
            for v in out.violations:
                v["component"] = v["component"] + ":buffer-reuse"
        else:
            out.violations = out2.violations
    return out


def _execute(prop, trace):
    out = Outcome()
    log = Log()
    sig = [float(x) for x in trace["signal"]]
    n = len(sig)
    reps = trace["replicas"]
    state = []
    for rp in reps:
        cuts = sorted(set(int(c) for c in rp["cuts"] if 0 < int(c) < n))
        bounds = [0] + cuts + [n]
        state.append({"d": None, "bounds": bounds, "k": 0, "delivered": [], "dead": False})
    try:
        for st, rp in zip(state, reps):
            st["d"] = _mk(rp["det"], rp["rec"], rp.get("prefill"))
            if rp.get("prefill") and rp["rec"] in ("full", "value"):
                out.count("history:recorder_prefilled_with_stored_loops")
    except RealCodeError as e:
        out.violate("exception", e.where, {"type": e.exc_type, "msg": e.msg})
        out.digest = log.digest()
        return out
    order = [int(r) for r in trace.get("order", []) if 0 <= int(r) < len(reps)]
    order += [r for r in range(len(reps)) for _ in range(len(state[r]["bounds"]))]   # finish whatever is left
    runs, kinds, rev = structure(sig)
    run_of = []
    for j, (v, a, b) in enumerate(runs):
        run_of += [j] * (b - a + 1)
    final_flush = bool(trace.get("final_flush"))
    scribble = bool(trace.get("scribble"))
    refuse = int(trace.get("refuse") or 0)

    for r in order:
        st, rp = state[r], reps[r]
        if st["dead"] or st["k"] >= len(st["bounds"]) - 1:
            continue
        a, b = st["bounds"][st["k"]], st["bounds"][st["k"] + 1]
        st["k"] += 1
        last = st["k"] == len(st["bounds"]) - 1
        chunk = np.array(sig[a:b], dtype=np.float64)
        cont = rp.get("container", "ndarray")
        if cont == "list":
            chunk = [float(x) for x in sig[a:b]]
        elif cont == "longdouble" and rp["det"] == "fkm" and prop == "C01":
            chunk = _extended(sig, a, b)       # an 80-bit recording: samples that no double holds
            out.count("container:longdouble")
        elif cont == "series":
            chunk = pd.Series(chunk, index=pd.RangeIndex(a + 7, b + 7))
        elif cont == "strided":
            wide = np.empty(2 * (b - a), dtype=np.float64)
            wide[0::2] = chunk
            wide[1::2] = -1e9
            chunk = wide[0::2]                 # a non-contiguous view
        elif cont == "readonly":
            chunk.setflags(write=False)        # e.g. a memory-mapped recording
        elif cont == "mixed":
            # every block in the narrowest float it fits in (float32 where exact, float64 otherwise)
            with np.errstate(over="ignore", under="ignore"):
                if len(chunk) and np.array_equal(np.round(chunk), chunk) and float(np.abs(chunk).max()) < 2.0 ** 31 \
                        and not (np.signbit(chunk) & (chunk == 0)).any():
                    chunk = chunk.astype(np.int32 if (st["k"] + r) % 2 else np.int64)       # whole numbers: a counter channel
                    cont = "mixed:int"
                elif np.array_equal(chunk.astype(np.float32).astype(np.float64), chunk):
                    chunk = chunk.astype(np.float32)
                    cont = "mixed:float32"
                else:
                    cont = "mixed:float64"
        elif cont in ("int", "f32"):
            # the same numbers in a narrower / integer dtype (ADC counts), only if they are representable
            dt = _narrow_dtype(sig, cont)
            if dt is not None:
                chunk = chunk.astype(dt)
                cont = cont + ":" + np.dtype(dt).name
            else:
                cont = "ndarray"
        out.count("container:" + cont)
        st["delivered"].append(sig[a:b])
        det, rec = rp["det"], rp["rec"]
        flush = final_flush and last
        mid = False
        if trace.get("mid_flush") and not last and 2 <= b < n and n <= 150 and (st["k"] + r) % 2 == 0 \
                and (sig[b - 1] - sig[b - 2]) * (sig[b] - sig[b - 1]) < 0:
            # the caller flushes at the end of a block whose last sample is a reversal anyway (flush=True declares the
            # last sample a turning point - which it is), and goes on: nothing may change
            flush = mid = True
            out.count("history:mid_stream_flush_at_a_reversal")
        out.steps += 1
        nb = len(st["bounds"]) - 1
        thin = n > 150 and not last and (st["k"] % max(1, nb // 8)) != 0     # long signals: a subset of the borders plus the end
        if refuse and (st["k"] + r + refuse) % 3 == 0 and b - a >= 1:
            # fault: the acquisition hands over a malformed block first (a column vector instead of a 1-D block);
            # the detector refuses it with an exception, the caller catches it and delivers the proper block.
            # A refused block must leave no trace.
            bad = np.array(sig[a:b], dtype=np.float64).reshape(-1, 1)
            if len(bad) > 1:
                try:
                    st["d"].process(bad)
                    # a tree that takes a column vector for samples has consumed this block now: nothing to refuse,
                    # and feeding the proper block as well would feed the samples twice - this replica ends here
                    out.count("probe:malformed_block_accepted")
                    st["dead"] = True
                    continue
                except Exception:       # noqa
                    out.count("fault:refused_block")
        try:
            _feed(st["d"], chunk, flush)
            if scribble and cont == "ndarray":
                chunk[:] = 1e30       # the caller re-uses its buffer (probe, see below)
            if thin:
                out.count("probe:border_checks_thinned")
                continue
            o = observe(st["d"], det, rec)
        except RealCodeError as e:
            out.violate("exception", "%s/%s" % (det, e.where), {"replica": r, "consumed": b, "type": e.exc_type, "msg": e.msg})
            st["dead"] = True
            continue
        log.add(r, b, o)
        if last or st["k"] == 1:
            # the user may look at the collective at any time (also early): it must agree with the arrays
            try:
                bad = collective_consistent(st["d"], o, rec) if rec not in ("probe", "lazy", "cascade") and (det != "fkm" or rec == "value") else None
            except RealCodeError as e:
                out.violate("exception", "%s/%s" % (det, e.where), {"replica": r, "consumed": b, "type": e.exc_type, "msg": e.msg})
                st["dead"] = True
                continue
            if bad:
                out.violate("I1-prefix-refinement" if prop == "C01" else "I4-exactly-once", det + ":collective",
                            {"replica": r, "consumed": b, "field": bad[0], "collective": bad[1], "arrays": o.get(bad[0])})
                st["dead"] = True
                continue
            out.count("probe:collective_read")
        if b < n:
            out.count("border:" + border_kind(b, sig, runs, kinds, rev, run_of))
        if prop == "C01":
            check_c01(out, st, rp, r, sig[:b], o, flush)
        else:
            if not mid:       # right after a flush the residual shows the flushed sample and the open end (C02 judges the borders after it)
                check_c02_accounting(out, st, rp, r, sig[:b], o)
            if last and not st["dead"] and rp["det"] in ("fp", "tp") and "ifrom" in o:
                # the delivery schedule may not change WHICH loops are closed: the chunked replica against the definition
                cyc, res = ref.four_point(ref.turning_points(sig))
                want_c = [(a_, b_, float(ia), float(ib)) for a_, b_, ia, ib in cyc]
                got_c = list(zip(o["from"], o["to"], o["ifrom"], o["ito"]))
                gres = list(zip(o["ridx"], o["res"]))
                wres = [(float(i_), v_) for i_, v_ in res]
                bad = (got_c != want_c) if rp["det"] == "fp" else (Counter(got_c) != Counter(want_c))
                if bad or gres != wres:
                    out.violate("I3-specification", rp["det"] + ":chunked",
                                {"replica": r, "chunks": [len(c) for c in st["delivered"]][:40], "cycles_got": len(got_c), "cycles_want": len(want_c),
                                 "got_residual": gres[:12], "want_residual": wres[:12]})
                    st["dead"] = True
                    continue
        if last:
            ncyc = len(o["from"])
            nchunks = len(st["bounds"]) - 1
            if nchunks >= 2 and ncyc >= 1:
                ks = sorted({border_kind(c, sig, runs, kinds, rev, run_of) for c in st["bounds"][1:-1]})
                feats = signal_features(sig, runs, kinds)
                out.sigs.append("%s|%s|%s|c%d|%s|r%d" % (det, rec[0], "+".join(ks), min(nchunks, 6) if nchunks < 6 else 6 + (nchunks > 12),
                                                        feats, min(len(o["res"]), 8)))
            if nchunks >= 3:
                out.count("probe:three_or_more_chunks")
    if prop == "C01" and trace.get("doubling") and not final_flush and n <= 150:
        # residue doubling: the caller closes the open loops by feeding the detector its own residuals - the very
        # array object the residuals property handed out - as one more chunk.  The signal is then s ++ r.
        for r, (st, rp) in enumerate(zip(state, reps)):
            if st["dead"] or st["k"] < len(st["bounds"]) - 1 or rp.get("container") == "longdouble":
                continue
            try:
                robj = st["d"].residuals
                rvals = [float(x) for x in np.asarray(robj, dtype=np.float64)]
            except Exception as e:     # noqa
                out.violate("exception", rp["det"] + "/residuals", {"replica": r, "type": type(e).__name__, "msg": str(e)})
                continue
            if not rvals or not isinstance(robj, np.ndarray) or robj.ndim != 1:
                out.count("skipped:doubling_no_residuals")
                continue
            ext = list(sig) + rvals
            st["delivered"].append(rvals)
            out.steps += 1
            try:
                _feed(st["d"], robj, False)
                o = observe(st["d"], rp["det"], rp["rec"])
            except RealCodeError as e:
                out.violate("exception", "%s/%s" % (rp["det"], e.where), {"replica": r, "consumed": len(ext), "type": e.exc_type, "msg": e.msg})
                continue
            log.add(r, len(ext), o)
            out.count("history:residue_doubling")
            check_c01(out, st, rp, r, ext, o, False)
    if prop == "C02" and trace.get("compat") and 2 <= n <= 150:
        check_c02_compat(out, trace, sig, log)
    if prop == "C02":
        sd = None
        if trace.get("spec_dtype") in ("int", "f32"):
            sd = _narrow_dtype(sig, trace["spec_dtype"])
            if sd is not None:
                out.count("container:spec:" + np.dtype(sd).name)
        check_c02_spec(out, sig, log, sd)
    out.digest = log.digest()
    return out


def signal_features(sig, runs, kinds):
    f = []
    n = len(sig)
    f.append("n%d" % (0 if n < 3 else 1 if n < 10 else 2 if n < 30 else 3 if n <= 80 else 4))
    if any(k and b > a for k, (v, a, b) in zip(kinds, runs)):
        f.append("revplat")
    if any((not k) and b > a for k, (v, a, b) in zip(kinds, runs)):
        f.append("slopeplat")
    vals = [v for v, a, b in runs]
    rng_ = [abs(vals[i + 1] - vals[i]) for i in range(len(vals) - 1)]
    if len(set(rng_)) < len(rng_):
        f.append("ties")
    if vals and (vals.count(max(vals)) > 1 or vals.count(min(vals)) > 1):
        f.append("repext")
    return ".".join(f)


def check_c01(out, st, rp, r, prefix, o, flush):
    det, rec = rp["det"], rp["rec"]
    # I1: prefix refinement against a fresh one-piece replica
    try:
        _, o_ref = one_piece(det, rec, prefix, flush, dtype="longdouble" if rp.get("container") == "longdouble" and det == "fkm" else None)
    except RealCodeError as e:
        out.violate("exception", "%s/%s" % (det, e.where), {"one_piece_prefix": len(prefix), "type": e.exc_type, "msg": e.msg})
        st["dead"] = True
        return
    a = {k: v for k, v in o.items() if k not in ("chunks", "lookups")}
    b_ = {k: v for k, v in o_ref.items() if k not in ("chunks", "lookups")}
    if a != b_:
        k = first_diff(a, b_)
        out.violate("I1-prefix-refinement", det,
                    {"replica": r, "consumed": len(prefix), "chunks": [len(c) for c in st["delivered"]],
                     "field": k, "chunked": a.get(k), "one_piece": b_.get(k)})
        st["dead"] = True
        return
    if det == "fkm":
        return
    # I2: chunk bookkeeping
    lens = [len(c) for c in st["delivered"]]
    if o["chunks"] != lens:
        out.violate("I2-chunk-bookkeeping", det + ":chunks", {"replica": r, "reported": o["chunks"], "delivered": lens})
        st["dead"] = True
        return
    offs = [0]
    for L in lens:
        offs.append(offs[-1] + L)
    pairs = [("ridx", "res")]
    if rec in ("full", "probe", "lazy", "cascade"):
        pairs += [("ifrom", "from"), ("ito", "to")]
    for ik, vk in pairs:
        gi = o[ik]
        if not gi:
            continue
        try:
            cn, cl = st["d"].recorder.chunk_local_index(np.asarray([int(g) for g in gi], dtype=np.int64))
            cn = [int(x) for x in np.atleast_1d(cn)]
            clf = [float(x) for x in np.atleast_1d(cl)]
        except Exception as e:   # noqa
            out.violate("exception", det + "/chunk_local_index", {"type": type(e).__name__, "msg": str(e), "global": gi})
            st["dead"] = True
            return
        # the same look-up with the indices stored compactly (the narrowest integer type that holds them)
        top = max(int(g) for g in gi)
        ndt = next((t for t in (np.uint8, np.int16, np.uint16, np.int32) if top <= np.iinfo(t).max), None)
        if ndt is not None and min(int(g) for g in gi) >= 0:
            try:
                cn2, cl2 = st["d"].recorder.chunk_local_index(np.asarray([int(g) for g in gi], dtype=ndt))
                same = [int(x) for x in np.atleast_1d(cn2)] == cn and [float(x) for x in np.atleast_1d(cl2)] == clf
            except Exception as e:   # noqa
                out.violate("exception", det + "/chunk_local_index", {"type": type(e).__name__, "msg": str(e), "global": gi, "dtype": np.dtype(ndt).name})
                st["dead"] = True
                return
            if not same:
                out.violate("I2-chunk-bookkeeping", "%s:%s:narrow-lookup" % (det, ik),
                            {"replica": r, "dtype": np.dtype(ndt).name, "global": gi[:20], "chunk": [int(x) for x in np.atleast_1d(cn2)][:20],
                             "chunk_int64": cn[:20], "chunks": lens[:40]})
                st["dead"] = True
                return
            out.count("probe:lookup_with_narrow_integers")
        for g, k, j, val in zip(gi, cn, clf, o[vk]):
            ok = (0 <= k < len(lens) and j == int(j) and 0 <= int(j) < lens[k]
                  and offs[k] + int(j) == int(g) and st["delivered"][k][int(j)] == val)
            if not ok:
                out.violate("I2-chunk-bookkeeping", "%s:%s" % (det, ik),
                            {"replica": r, "global_index": g, "chunk": k, "local": j, "reported_value": val,
                             "chunks": lens})
                st["dead"] = True
                return
    # look-ups made from inside the callbacks (the chunk that holds the index is still being processed then)
    for g, k, j in o.get("lookups", []):
        if not (0 <= k < len(lens) and 0 <= j < lens[k] and offs[k] + j == g):
            out.violate("I2-chunk-bookkeeping", det + ":lookup-inside-callback",
                        {"replica": r, "global_index": g, "chunk": k, "local": j, "chunks": lens})
            st["dead"] = True
            return
    if o.get("lookups"):
        out.count("probe:lookups_inside_callback", len(o["lookups"]))
    out.count("I2-indices-mapped", sum(len(o[ik]) for ik, _ in pairs))


def check_c02_accounting(out, st, rp, r, prefix, o):
    """I4: cycle end points + residual use every turning point exactly once;
    every reported index addresses a sample holding the reported value."""
    det, rec = rp["det"], rp["rec"]
    if len(prefix) < 2:
        return
    if det == "fkm":
        want = Counter(v for _, v in ref.interior_reversals(prefix))
        got = Counter(o["from"]) + Counter(o["to"]) + Counter(o["res"])
        if want != got:
            out.violate("I4-exactly-once", "fkm:values",
                        {"replica": r, "consumed": len(prefix), "missing": sorted((want - got).elements()),
                         "surplus": sorted((got - want).elements())})
            st["dead"] = True
        return
    tp = ref.turning_points(prefix)
    if rec in ("full", "probe", "lazy", "cascade"):
        want = Counter((float(i), v) for i, v in tp)
        got = Counter(zip(o["ifrom"], o["from"])) + Counter(zip(o["ito"], o["to"])) + Counter(zip(o["ridx"], o["res"]))
        for (i, v) in got:
            if not (i == int(i) and 0 <= int(i) < len(prefix) and prefix[int(i)] == v):
                out.violate("I4-index-addresses-value", det + ":index", {"replica": r, "consumed": len(prefix), "index": i, "value": v})
                st["dead"] = True
                return
    else:
        want = Counter(v for _, v in tp)
        got = Counter(o["from"]) + Counter(o["to"]) + Counter(o["res"])
        for i, v in zip(o["ridx"], o["res"]):
            if not (i == int(i) and 0 <= int(i) < len(prefix) and prefix[int(i)] == v):
                out.violate("I4-index-addresses-value", det + ":ridx", {"replica": r, "consumed": len(prefix), "index": i, "value": v})
                st["dead"] = True
                return
    if want != got:
        out.violate("I4-exactly-once", det + ":turning-points",
                    {"replica": r, "consumed": len(prefix), "chunks": [len(c) for c in st["delivered"]],
                     "missing": sorted((want - got).elements()), "surplus": sorted((got - want).elements())})
        st["dead"] = True


def check_c02_spec(out, sig, log, spec_dtype=None):
    """I3: one-piece replicas against the executable definition, on the whole
    signal and on a few prefixes."""
    n = len(sig)
    if n < 2:
        return
    prefixes = sorted({n, max(2, n // 2), max(2, n - 1), max(2, (2 * n) // 3)})
    for m in prefixes:
        pre = sig[:m]
        tp = ref.turning_points(pre)
        cyc, res = ref.four_point(tp)
        rev = ref.interior_reversals(pre)
        hcyc, hres = ref.hcm([v for _, v in rev])
        # find_turns itself
        try:
            with warnings.catch_warnings():
                warnings.simplefilter("error")
                ti, tv = find_turns(np.array(pre, dtype=np.float64))
            ti, tv = [int(x) for x in ti], [float(x) for x in tv]
        except Exception as e:   # noqa
            out.violate("exception", "find_turns", {"type": type(e).__name__, "msg": str(e), "prefix": m})
            return
        if ti != [i for i, _ in rev] or tv != [v for _, v in rev]:
            out.violate("I3-specification", "find_turns", {"prefix": m, "got_index": ti, "got_values": tv,
                                                           "want": rev})
            return
        for det in ("fp", "tp", "fkm"):
            try:
                _, o = one_piece(det, "full" if det != "fkm" else "value", pre, dtype=spec_dtype)
            except RealCodeError as e:
                out.violate("exception", "%s/%s" % (det, e.where), {"one_piece_prefix": m, "type": e.exc_type, "msg": e.msg})
                return
            log.add("spec", det, m, o)
            out.steps += 1
            if det == "fkm":
                got = list(zip(o["from"], o["to"]))
                if got != [(a, b) for a, b in hcyc] or o["res"] != hres:
                    out.violate("I3-specification", "fkm", {"prefix": m, "got_cycles": got, "want_cycles": hcyc,
                                                            "got_residual": o["res"], "want_residual": hres})
                    return
                if got:
                    out.count("probe:fkm_cycles", len(got))
                continue
            got = list(zip(o["from"], o["to"], o["ifrom"], o["ito"]))
            want = [(a, b, float(ia), float(ib)) for a, b, ia, ib in cyc]
            gres = list(zip(o["ridx"], o["res"]))
            wres = [(float(i), v) for i, v in res]
            if det == "fp":
                bad = got != want or gres != wres
            else:
                bad = Counter(got) != Counter(want) or gres != wres
            if bad:
                out.violate("I3-specification", det, {"prefix": m, "got_cycles": got, "want_cycles": want,
                                                      "got_residual": gres, "want_residual": wres})
                return
            if det == "fp" and m == n and want:
                out.count("probe:cycles_checked", len(want))
                feats = signal_features(sig, *structure(sig)[:2])
                out.sigs.append("spec|%s|cy%d|res%d" % (feats, min(len(want), 10), min(len(wres), 8)))
                ranges = [abs(a - b) for a, b, _, _ in want]
                if len(set(ranges)) < len(ranges):
                    out.count("probe:equal_cycle_ranges")
            if det == "tp" and got != want and m == n:
                out.count("probe:tp_order_differs_from_fp")


def check_c02_compat(out, trace, sig, log):
    """The old-style entry points (pylife.stress.rainflow.RainflowCounterThreePoint / RainflowCounterFKM) are the same
    detectors behind another facade: fed in chunks, with the loops looked at between the calls, they must report what
    the definition yields."""
    import pylife.stress.rainflow as RF
    n = len(sig)
    cp = trace["compat"]
    cuts = sorted({min(n - 1, max(1, int(round(f * n)))) for f in cp.get("cuts", [])})
    bounds = [0] + cuts + [n]
    cyc, res = ref.four_point(ref.turning_points(sig))
    hcyc, hres = ref.hcm([v for _, v in ref.interior_reversals(sig)])
    for name, cls in (("compat-tp", RF.RainflowCounterThreePoint), ("compat-fkm", RF.RainflowCounterFKM)):
        out.steps += 1
        try:
            c = cls()
            for a, b in zip(bounds[:-1], bounds[1:]):
                ret = c.process(np.array(sig[a:b], dtype=np.float64))
                if cp.get("peek"):
                    # the user looks at the loops so far (and keeps what was handed out)
                    len(c.loops_from), len(c.loops_to), c.residuals()
                    out.count("probe:compat_read_between_calls")
            got = [(float(x), float(y)) for x, y in zip(c.loops_from, c.loops_to)]
            gres = [float(x) for x in c.residuals()]
        except Exception as e:    # noqa
            out.violate("exception", name, {"type": type(e).__name__, "msg": str(e)[:200], "chunks": [b - a for a, b in zip(bounds[:-1], bounds[1:])]})
            return
        log.add(name, got, gres)
        out.count("history:" + name)
        if name == "compat-fkm":
            bad = got != [(float(a), float(b)) for a, b in hcyc] or gres != [float(v) for v in hres]
            want, wres = [(float(a), float(b)) for a, b in hcyc], [float(v) for v in hres]
        else:
            want, wres = [(float(a), float(b)) for a, b, _, _ in cyc], [float(v) for _, v in res]
            bad = Counter(got) != Counter(want) or gres != wres
        if bad:
            out.violate("I3-specification", name, {"chunks": [b - a for a, b in zip(bounds[:-1], bounds[1:])], "peek": bool(cp.get("peek")),
                                                   "got_cycles": got[:20], "want_cycles": want[:20], "got_residual": gres[:12], "want_residual": wres[:12]})
            return


# ------------------------------------------------------------------ marathons (thorough tier only)
#
# Two histories that no short signal reaches: a detector that has been running for more than 2**31 samples
# (C02: the reported indices are global sample numbers), and one call that has to digest more than 2**24
# turning points (C01: one piece against chunks).  The acquisition is simulated: blocks are computed from
# the sample number in closed form, nothing is stored; all of pyLife's code runs as it is.

def generate_marathon(prop, rng):
    if prop == "C03" and rng.random() < 0.4:
        # ONE call with more than 2**25 samples, flushed: a refinement of a few hundred reversals
        total = (1 << 25) + rng.randint(1, 1 << 22)
        return {"world": NAME, "marathon": {"kind": "long", "det": rng.choice(["fp", "tp", "fkm"]),
                                            "log2_period": rng.choice([15, 16, 17]), "block": total, "total": total, "flush": True}}
    if prop in ("C02", "C03"):
        return {"world": NAME, "marathon": {"kind": "long", "det": rng.choice(["fp", "fp", "tp"]),
                                            "log2_period": rng.choice([14, 15, 16]),
                                            "block": rng.choice([1 << 22, 3 << 20, (1 << 22) + 1]),
                                            "total": (1 << rng.choice([31, 31, 32])) + rng.randint(1 << 20, 1 << 24)}}
    return {"world": NAME, "marathon": {"kind": "dense", "det": rng.choice(["tp", "fp"]),
                                        "n_vib": (1 << 24) + (rng.randint(-3, 40) if rng.random() < 0.5 else 4 * rng.randint(0, 10)),
                                        "lo": float(rng.randint(-2, 0)), "hi": float(rng.randint(1, 3)),
                                        "event": _gen_event(rng),
                                        "cut_fracs": sorted(rng.random() for _ in range(rng.randint(0, 2)))}}


def _gen_event(rng):
    if rng.random() < 0.4:
        return [float(rng.randint(-9, 9)) + rng.choice([0.0, 0.5]) for _ in range(rng.randint(4, 9))]
    # a big swing right after the vibration, smaller loops inside it, then a sample beyond the swing
    ext = float(rng.randint(4, 8))
    sgn = rng.choice([-1.0, 1.0])
    ev = [sgn * ext, -sgn * ext]
    ev += [float(rng.randint(-3, 3)) + rng.choice([0.0, 0.5]) for _ in range(rng.randint(1, 3))]
    ev += [sgn * (ext + 1.0)]
    ev += [float(rng.randint(-3, 3)) + rng.choice([0.0, 0.5]) for _ in range(rng.randint(0, 2))]
    return ev


def _arrays_of(d):
    r = d.recorder
    return {"from": np.asarray(r.values_from, dtype=np.float64), "to": np.asarray(r.values_to, dtype=np.float64),
            "ifrom": np.asarray(r.index_from), "ito": np.asarray(r.index_to),
            "res": np.asarray(d.residuals, dtype=np.float64), "ridx": np.asarray(d.residual_index)}


def execute_marathon(prop, trace):
    import hashlib
    out = Outcome()
    log = Log()
    m = trace["marathon"]
    det = m["det"]
    try:
        if m["kind"] == "long":
            _marathon_long(out, log, m, det, prop)
        else:
            _marathon_dense(out, log, m, det)
    except RealCodeError as e:
        out.violate("exception", "marathon/%s/%s" % (det, e.where), {"type": e.exc_type, "msg": e.msg})
    out.digest = log.digest()
    return out


def _marathon_long(out, log, m, det, prop="C02"):
    """f(i) = |(i mod P) - P/2| + (i div 2**22): a triangular wave whose mean creeps upwards.  Its turning
    points are known in closed form: maxima at multiples of P, minima half a period later."""
    P = 1 << int(m["log2_period"])
    H = P // 2
    total, block = int(m["total"]), int(m["block"])

    def f(i):
        return np.abs((i & (P - 1)) - H) + (i >> 22)

    flush = bool(m.get("flush"))
    d = _mk(det, "full" if det != "fkm" else "value")
    a = 0
    while a < total:
        b = min(total, a + block)
        i = np.arange(a, b, dtype=np.int64)
        blk = f(i).astype(np.float64)
        del i
        _feed(d, blk, flush and b == total)
        del blk
        out.steps += 1
        a = b
    if block >= total:
        out.count("probe:marathon_one_call_beyond_2e25_samples")
    if total >= (1 << 31):
        out.count("probe:marathon_beyond_%s_samples" % ("2e32" if total >= (1 << 32) else "2e31"))
    try:
        if det == "fkm":
            o = {"from": np.asarray(d.recorder.values_from, dtype=np.float64), "to": np.asarray(d.recorder.values_to, dtype=np.float64),
                 "res": np.asarray(d.residuals, dtype=np.float64)}
        else:
            o = _arrays_of(d)
    except Exception as e:     # noqa
        raise RealCodeError("observe", e)
    # the definition, on the closed-form turning points
    tp = [(0, float(f(np.int64(0))))]
    k = H
    while k < total - 1:
        tp.append((k, float(f(np.int64(k)))))
        k += H
    tp.append((total - 1, float(f(np.int64(total - 1)))))
    if prop == "C03":
        # C03: the streamed signal is a refinement of its reversal sequence - what the same detector reports for the
        # reversals alone, with the indices moved to where those samples sit in the stream, is what it must report
        try:
            dr = _mk(det, "full" if det != "fkm" else "value")
            _feed(dr, np.array([v for _, v in tp], dtype=np.float64), flush)
            if det == "fkm":
                orv = {"from": np.asarray(dr.recorder.values_from, dtype=np.float64), "to": np.asarray(dr.recorder.values_to, dtype=np.float64),
                       "res": np.asarray(dr.residuals, dtype=np.float64)}
            else:
                orv = _arrays_of(dr)
        except RealCodeError:
            raise
        except Exception as e:     # noqa
            raise RealCodeError("observe", e)
        if det == "fkm":
            got_v = [o["from"].tolist(), o["to"].tolist(), o["res"].tolist()]
            want_v = [orv["from"].tolist(), orv["to"].tolist(), orv["res"].tolist()]
            log.add("long-c03-fkm", len(got_v[0]), got_v[2])
            if got_v != want_v:
                out.violate("T-mid", "fkm:long-history", {"samples": total, "one_call": block >= total, "flush": flush,
                                                          "cycles_got": len(got_v[0]), "cycles_want": len(want_v[0]),
                                                          "got_residual": got_v[2][:8], "want_residual": want_v[2][:8]})
            return
        pos = [i for i, _ in tp]
        want_c = list(zip(orv["from"].tolist(), orv["to"].tolist(), [pos[int(x)] for x in orv["ifrom"]], [pos[int(x)] for x in orv["ito"]]))
        want_r = list(zip([pos[int(x)] for x in orv["ridx"]], orv["res"].tolist()))
        got_c = list(zip(o["from"].tolist(), o["to"].tolist(), [int(x) for x in o["ifrom"]], [int(x) for x in o["ito"]]))
        got_r = list(zip([int(x) for x in o["ridx"]], o["res"].tolist()))
        log.add("long-c03", det, len(got_c), got_r)
        out.count("probe:marathon_refinement_of_%s_samples" % ("2e32" if total >= (1 << 32) else "2e31" if total >= (1 << 31) else "2e25_in_one_call"))
        if got_c != want_c or got_r != want_r:
            k_ = next((q for q in range(min(len(got_c), len(want_c))) if got_c[q] != want_c[q]), min(len(got_c), len(want_c)))
            out.violate("T-mid", det + ":long-history",
                        {"samples": total, "cycles_got": len(got_c), "cycles_want": len(want_c), "first_difference": k_,
                         "got": got_c[k_] if k_ < len(got_c) else None, "want": want_c[k_] if k_ < len(want_c) else None,
                         "got_residual": got_r[:8], "want_residual": want_r[:8],
                         "signal": "f(i) = |(i mod %d) - %d| + (i div 2**22), against its reversals alone" % (P, H)})
        return
    if det == "fkm" or flush:
        return          # only the C03 form of this marathon has an oracle for these
    cyc, res = ref.four_point(tp)
    want = [(a_, b_, ia, ib) for a_, b_, ia, ib in cyc]
    got = list(zip(o["from"].tolist(), o["to"].tolist(), [int(x) for x in o["ifrom"]], [int(x) for x in o["ito"]]))
    gres = list(zip([int(x) for x in o["ridx"]], o["res"].tolist()))
    wres = [(int(i), v) for i, v in res]
    log.add("long", det, len(got), gres)
    # every reported index addresses a sample that holds the reported value
    for name, idx, val in (("from", o["ifrom"], o["from"]), ("to", o["ito"], o["to"]), ("residual", o["ridx"], o["res"])):
        idx64 = np.asarray(idx, dtype=np.uint64)
        inside = idx64 < np.uint64(total)
        ok = inside.copy()
        ok[inside] = f(idx64[inside].astype(np.int64)).astype(np.float64) == np.asarray(val)[inside]
        if not ok.all():
            q = int(np.argmin(ok))
            out.violate("I4-index-addresses-value", det + ":index:long-history",
                        {"which": name, "entry": q, "index": int(idx64[q]), "value": float(np.asarray(val)[q]), "samples": total,
                         "signal": "f(i) = |(i mod %d) - %d| + (i div 2**22)" % (P, H)})
            return
    bad = (got != want) if det == "fp" else (Counter(got) != Counter(want))
    if bad or gres != wres:
        k_ = next((q for q in range(min(len(got), len(want))) if got[q] != want[q]), min(len(got), len(want)))
        out.violate("I3-specification", det + ":long-history",
                    {"samples": total, "cycles_got": len(got), "cycles_want": len(want), "first_difference": k_,
                     "got": got[k_] if k_ < len(got) else None, "want": want[k_] if k_ < len(want) else None,
                     "got_residual": gres[:8], "want_residual": wres[:8]})
        return
    out.count("probe:cycles_checked", len(want))


def _marathon_dense(out, log, m, det):
    """A vibration lo, hi, lo, hi, ... of more than 2**24 samples (every sample a turning point) followed
    by an event: one piece against chunks."""
    n_vib = int(m["n_vib"])
    vib = np.empty(n_vib, dtype=np.float64)
    vib[0::2] = float(m["lo"])
    vib[1::2] = float(m["hi"])
    sig = np.concatenate((vib, np.array([float(x) for x in m["event"]], dtype=np.float64)))
    del vib
    n = len(sig)
    cuts = sorted({min(n - 1, max(1, int(fr * n))) for fr in m.get("cut_fracs", [])} | {n_vib})
    d1 = _mk(det, "full")
    _feed(d1, sig)
    try:
        o1 = _arrays_of(d1)
    except Exception as e:     # noqa
        raise RealCodeError("observe", e)
    del d1
    d2 = _mk(det, "full")
    bounds = [0] + cuts + [n]
    for a, b in zip(bounds[:-1], bounds[1:]):
        _feed(d2, sig[a:b])
        out.steps += 1
    try:
        o2 = _arrays_of(d2)
    except Exception as e:     # noqa
        raise RealCodeError("observe", e)
    out.count("probe:marathon_about_2e24_turns_in_one_call")
    log.add("dense", det, len(o1["from"]), o1["res"].tolist(), o1["ridx"].tolist(), len(o2["from"]), o2["res"].tolist(), o2["ridx"].tolist())
    for k in ("from", "to", "ifrom", "ito", "res", "ridx"):
        x, y = o2[k], o1[k]
        if len(x) != len(y) or not np.array_equal(x, y):
            q = next((j for j in range(min(len(x), len(y))) if x[j] != y[j]), min(len(x), len(y)))
            out.violate("I1-prefix-refinement", det + ":dense-call",
                        {"field": k, "chunks": [b - a for a, b in zip(bounds[:-1], bounds[1:])], "first_difference": q,
                         "chunked_len": len(x), "one_piece_len": len(y),
                         "chunked": [float(v) for v in x[max(0, q - 2):q + 3]], "one_piece": [float(v) for v in y[max(0, q - 2):q + 3]],
                         "signal": "%d samples alternating %g, %g, then %s" % (n_vib, m["lo"], m["hi"], m["event"])})
            return
    for name, idx, val in (("from", o1["ifrom"], o1["from"]), ("to", o1["ito"], o1["to"]), ("residual", o1["ridx"], o1["res"])):
        idx = np.asarray(idx, dtype=np.int64)
        if len(idx) and (idx.min() < 0 or idx.max() >= n or not np.array_equal(sig[idx], val)):
            out.violate("I4-index-addresses-value", det + ":index:dense-call", {"which": name})
            return


# ------------------------------------------------------------------ C03

def gen_dyadic_signal(rng, min_len=3, max_len=60):
    sig = gen_signal(rng, min_len=min_len, max_len=max_len)
    return [(x if x == 0 else round(x * 8) / 8) for x in sig]          # zeros keep their sign


def generate_c03(rng, tier):
    kind = rng.choice(["dup", "mid", "mid", "dupmid", "nan", "neg", "affine", "container", "samevalues"])
    sig = gen_dyadic_signal(rng, min_len=2 if kind != "nan" else 3)
    n = len(sig)
    tw = {"kind": kind}
    if kind in ("dup", "mid", "dupmid"):
        ins = []   # [pos, [values]] inserted after original index pos
        dens = rng.choice([0.1, 0.3, 0.7])
        for i in range(n):
            if rng.random() >= dens:
                continue
            vals = []
            k = kind if kind != "dupmid" else rng.choice(["dup", "mid"])
            if k == "dup" or i == n - 1 or sig[i] == sig[i + 1]:
                vals = [sig[i]] * rng.randint(1, 3)
            else:
                a, b = sig[i], sig[i + 1]
                m = rng.randint(1, 3)
                # values in [a, b) on a dyadic grid, monotone in the direction of travel
                steps = sorted(rng.choice([0.0, 0.125, 0.25, 0.5, 0.75, 0.875]) for _ in range(m))
                vals = [a + (b - a) * s for s in steps]
                if rng.random() < 0.3 and vals:
                    vals = [vals[0]] + vals      # two-sample plateau on a slope
            ins.append([i, vals])
        if rng.random() < 0.12 and n >= 2:
            # a long dwell: one level held for hundreds of samples (all of them non-reversal samples)
            i = rng.randrange(n)
            dwell = [sig[i]] * rng.choice([130, 200, 300])
            for entry in ins:
                if entry[0] == i:
                    entry[1] = dwell + entry[1]        # repeats of the original come directly after it
                    break
            else:
                ins.append([i, dwell])
                ins.sort(key=lambda iv: iv[0])
        tw["ins"] = ins
    elif kind == "nan":
        k = rng.randint(1, 4)
        tw["nan_after"] = sorted(rng.randint(0, n - 2) for _ in range(k))   # NaN inserted after original index i (i <= n-2)
    elif kind == "affine":
        if rng.random() < 0.3:
            # very small / very large exact scales (strain-like or Pa-like units): steps far below 1e-8 or above 1e8
            tw["a"] = 2.0 ** rng.choice([-27, -30, -40, 30, 40, -600, 500, -1071, -1071]) * rng.choice([1.0, 1.0, 3.0])
            tw["b"] = tw["a"] * rng.randint(-64, 64)
        else:
            tw["a"] = 2.0 ** rng.randint(-3, 5)
            tw["b"] = float(rng.randint(-64, 64)) / rng.choice([1, 2, 8])
    elif kind == "container":
        tw["index"] = rng.choice(["range", "shuffled", "float", "datetime", "string", "offset", "dupint", "datetime_unsorted", "timedelta_unsorted"])
        tw["perm_seed"] = rng.randint(0, 10 ** 6)
    tr = {"world": NAME, "signal": sig, "twin": tw}
    if rng.random() < 0.4:
        # the twin is delivered in chunks (cut positions are fractions of the twin's length, so they
        # survive shrinking); the relation must hold however the twin is fed
        tr["twin_cuts"] = sorted(rng.random() for _ in range(rng.choice([1, 1, 2, 3, 6])))
        tr["reuse_buffer"] = rng.random() < 0.3
    tr["final_flush"] = rng.random() < 0.2      # both replicas end with flush=True
    if rng.random() < 0.25:
        tr["twin_view"] = rng.choice(["column", "step2"])     # blocks handed over as strided views of a wider array
    if kind == "nan":
        tr["escalate"] = rng.random() < 0.4
    elif rng.random() < 0.15:
        tr["twin_mixed"] = True
    return tr


def _series_for(sig, tw):
    import random as _r
    n = len(sig)
    kind = tw["index"]
    if kind == "range":
        idx = pd.RangeIndex(n)
    elif kind == "shuffled":
        p = list(range(n))
        _r.Random(tw["perm_seed"]).shuffle(p)
        idx = pd.Index(p)
    elif kind == "float":
        idx = pd.Index([0.5 * i - 3.25 for i in range(n)])
    elif kind == "datetime":
        idx = pd.date_range("2020-01-01", periods=n, freq="s")
    elif kind == "datetime_unsorted":
        # a wall clock that was set back during the recording / stamps of blocks stitched together out of order
        p = list(range(n))
        _r.Random(tw["perm_seed"]).shuffle(p)
        idx = pd.DatetimeIndex([pd.Timestamp("2020-01-01") + pd.Timedelta(seconds=q) for q in p]) if tw["perm_seed"] % 3 else \
            pd.date_range("2020-01-01", periods=n, freq="s")[::-1]
    elif kind == "timedelta_unsorted":
        p = list(range(n))
        _r.Random(tw["perm_seed"]).shuffle(p)
        idx = pd.TimedeltaIndex([pd.Timedelta(milliseconds=5 * q) for q in p])
    elif kind == "string":
        idx = pd.Index(["s%03d" % ((7 * i + 3) % 1000) for i in range(n)])
    elif kind == "offset":
        idx = pd.RangeIndex(5, 5 + n)
    else:
        idx = pd.Index([i // 2 for i in range(n)])
    return pd.Series(np.array(sig, dtype=np.float64), index=idx)


def execute_c03(trace):
    out = Outcome()
    log = Log()
    sig = [float(x) for x in trace["signal"]]
    n = len(sig)
    tw = trace["twin"]
    kind = tw["kind"]
    dets = ["tp", "fp", "fkm"]
    expect_warning = False
    idx_map = list(range(n))
    vmap = lambda v: v   # noqa
    if kind in ("dup", "mid", "dupmid"):
        ins = {}
        for pos, vals in tw.get("ins", []):
            pos = int(pos)
            if not (0 <= pos < n) or not vals:
                continue
            vals = [float(v) for v in vals]
            # validity of the refinement (keeps shrunk traces honest)
            a = sig[pos]
            if pos == n - 1:
                ok = all(v == a for v in vals)
            else:
                b = sig[pos + 1]
                lo, hi = min(a, b), max(a, b)
                ok = all(lo <= v <= hi and (v != b or a == b) for v in vals)
                ok = ok and all((vals[i + 1] - vals[i]) * (b - a) >= 0 for i in range(len(vals) - 1))
            if ok and pos in ins and pos < n - 1:
                # several entries for one position: the combined run must still be monotone
                comb = ins[pos] + vals
                b = sig[pos + 1]
                ok = all((comb[i + 1] - comb[i]) * (b - a) >= 0 for i in range(len(comb) - 1))
            if ok:
                ins.setdefault(pos, []).extend(vals)
        twin = []
        fired = 0
        for i, x in enumerate(sig):
            idx_map[i] = len(twin)
            twin.append(x)
            for v in ins.get(i, []):
                twin.append(v)
                fired += 1
                out.count("fault:dup" if v == x else "fault:mid")
        idx_map[n - 1] = len(twin) - 1       # "last sample" turning point is the last sample
        twin_in = np.array(twin, dtype=np.float64)
    elif kind == "nan":
        after = Counter(int(i) for i in tw.get("nan_after", []) if 0 <= int(i) <= n - 2)
        twin = []
        for i, x in enumerate(sig):
            idx_map[i] = len(twin)
            twin.append(x)
            for _ in range(after.get(i, 0)):
                twin.append(float("nan"))
                out.count("fault:nan")
        expect_warning = sum(after.values()) > 0
        twin_in = np.array(twin, dtype=np.float64)
    elif kind == "neg":
        twin_in = -np.array(sig, dtype=np.float64)
        vmap = lambda v: -v   # noqa
        out.count("twin:neg")
    elif kind == "affine":
        a, b = float(tw["a"]), float(tw["b"])
        twin_in = a * np.array(sig, dtype=np.float64) + b
        # exactness guard: the map must be exact in floating point, else the oracle is wrong
        back = (twin_in - b) / a
        if a <= 0 or not np.array_equal(back, np.array(sig)):
            out.digest = log.digest()
            out.count("skipped:inexact_affine")
            return out
        vmap = lambda v: a * v + b   # noqa
        dets = ["tp", "fp"]
        out.count("twin:affine")
    elif kind == "container":
        twin_in = _series_for(sig, tw)
        out.count("twin:container:" + tw["index"])
    elif kind == "samevalues":
        # an element-wise equal signal (x + 0.0 turns every -0.0 into +0.0): a signal is its values
        twin_in = np.array(sig, dtype=np.float64) + 0.0
        out.count("twin:samevalues")
    else:
        raise ValueError(kind)

    for det in dets:
        rec = "full" if det != "fkm" else "value"
        out.steps += 2
        try:
            ff = bool(trace.get("final_flush"))
            _, o = one_piece(det, rec, sig, flush=ff)
            d2 = _mk(det, rec)
            block_warning_bad = None
            with warnings.catch_warnings(record=True) as wl:
                warnings.simplefilter("always")
                m = len(twin_in)
                cuts = sorted({min(m - 1, max(1, int(round(f * m)))) for f in trace.get("twin_cuts", [])}) if m > 1 else []
                if cuts:
                    out.count("probe:twin_delivered_in_chunks")
                    if expect_warning and any(bool(np.isnan(twin_in[c - 1])) for c in cuts):
                        out.count("probe:nan_last_sample_of_a_chunk")
                    if expect_warning and any(bool(np.isnan(twin_in[c])) for c in cuts):
                        out.count("probe:nan_first_sample_of_a_chunk")
                bounds = [0] + cuts + [m]
                for a_, b_ in zip(bounds[:-1], bounds[1:]):
                    fl = ff and b_ == m
                    blk = twin_in.iloc[a_:b_] if isinstance(twin_in, pd.Series) else twin_in[a_:b_]
                    if trace.get("escalate") and bool(np.isnan(np.asarray(blk, dtype=np.float64)).any()):
                        # fault: the caller runs with warnings as errors; the NaN warning aborts the call, the
                        # caller catches it and hands the same block over again with the warning tolerated.
                        # The aborted call must leave no trace.
                        with warnings.catch_warnings():
                            warnings.simplefilter("error")
                            try:
                                d2.process(blk)
                                # consumed without the warning that C03 promises: reported below; not fed again
                                out.count("probe:escalated_warning_not_raised")
                                block_warning_bad = {"block": [a_, b_], "block_has_nan": True, "warned": False, "escalated": True}
                                continue
                            except UserWarning:
                                out.count("fault:aborted_by_escalated_warning")
                            except Exception as e:     # noqa
                                raise RealCodeError("process", e)
                    n_warn_before = len(wl)
                    has_nan = bool(np.isnan(np.asarray(blk, dtype=np.float64)).any())
                    done = False
                    if not isinstance(twin_in, pd.Series) and trace.get("twin_mixed"):
                        # every block in the narrowest float that holds it exactly
                        with np.errstate(over="ignore", under="ignore", invalid="ignore"):
                            b32 = np.asarray(blk, dtype=np.float64).astype(np.float32)
                            if np.array_equal(b32.astype(np.float64), np.asarray(blk, dtype=np.float64), equal_nan=True):
                                _feed(d2, b32, fl)
                                out.count("container:block_float32")
                                done = True
                        if not done:
                            out.count("container:block_float64")
                    if done:
                        pass
                    elif isinstance(twin_in, pd.Series):
                        _feed(d2, twin_in.iloc[a_:b_], fl)
                    elif trace.get("reuse_buffer") and cuts:
                        buf = np.array(twin_in[a_:b_], dtype=np.float64)      # the reader's block buffer ...
                        _feed(d2, buf, fl)
                        buf[:] = 1e30                                          # ... is refilled after the call
                    elif trace.get("twin_view"):
                        # the block is a channel of a multi-channel recording: a non-contiguous view, not a copy
                        blk64 = np.asarray(twin_in[a_:b_], dtype=np.float64)
                        if trace["twin_view"] == "column":
                            wide = np.full((len(blk64), 3), -1e9)
                            wide[:, 1] = blk64
                            view = wide[:, 1]
                        else:
                            wide = np.full(2 * len(blk64) + 1, 1e9)
                            wide[1::2] = blk64
                            view = wide[1::2]
                        _feed(d2, view, fl)
                        out.count("container:twin_view_" + trace["twin_view"])
                    else:
                        _feed(d2, twin_in[a_:b_], fl)
                    # every call that is handed NaN samples says that it drops them (a later call may repeat the
                    # warning for NaNs still held in the carried tail: more than the property asks, never less)
                    warned = any(issubclass(w_.category, UserWarning) and "NaN" in str(w_.message) for w_ in wl[n_warn_before:])
                    if has_nan and not warned:
                        block_warning_bad = {"block": [a_, b_], "block_has_nan": has_nan, "warned": warned}
                if ff:
                    out.count("probe:final_flush")
            o2 = observe(d2, det, rec)
        except RealCodeError as e:
            out.violate("exception", "%s/%s/%s" % (kind, det, e.where), {"type": e.exc_type, "msg": e.msg})
            continue
        log.add(det, o, o2)
        if block_warning_bad:
            out.violate("T-" + kind, det + ":warning-per-call", block_warning_bad)
            continue
        if expect_warning:
            if not any(issubclass(w.category, UserWarning) and "NaN" in str(w.message) for w in wl):
                out.violate("T-" + kind, det + ":warning", {"warnings": [str(w.message) for w in wl]})
                continue
        want = {"from": [vmap(v) for v in o["from"]], "to": [vmap(v) for v in o["to"]],
                "res": [vmap(v) for v in o["res"]]}
        if det != "fkm":
            want["ifrom"] = [float(idx_map[int(i)]) for i in o["ifrom"]]
            want["ito"] = [float(idx_map[int(i)]) for i in o["ito"]]
            want["ridx"] = [float(idx_map[int(i)]) for i in o["ridx"]]
        got = {k: o2[k] for k in want}
        if got != want:
            k = first_diff(got, want)
            out.violate("T-" + kind, det + (":chunked" if trace.get("twin_cuts") and len(twin_in) > 1 else ""), {"field": k, "got": got[k], "want": want[k]})
            continue
        if o["from"]:
            out.sigs.append("%s|%s|%s|cy%d" % (kind if kind != "container" else "container-" + tw["index"], det,
                                                signal_features(sig, *structure(sig)[:2]), min(len(o["from"]), 6)))
    out.digest = log.digest()
    return out


# ------------------------------------------------------------------ shrink / classify / describe

def _adjust_cuts(cuts, pos, n_removed):
    out = []
    for c in cuts:
        if c <= pos:
            out.append(c)
        elif c >= pos + n_removed:
            out.append(c - n_removed)
        else:
            out.append(pos)
    return out


def shrink(prop, trace):
    if trace.get("marathon"):
        return      # a marathon is its own minimal form: its few parameters are the whole trace
    import copy
    sig = trace["signal"]
    n = len(sig)
    if prop != "C03":
        reps = trace["replicas"]
        # 1. single replica, sequential order
        if len(reps) > 1:
            for r in range(len(reps)):
                t = copy.deepcopy(trace)
                t["replicas"] = [reps[r]]
                t["order"] = []
                yield t
        if trace.get("order"):
            t = copy.deepcopy(trace)
            t["order"] = []
            yield t
        for key in ("final_flush", "scribble", "refuse", "doubling", "compat", "mid_flush"):
            if trace.get(key):
                t = copy.deepcopy(trace)
                t[key] = False
                yield t
        for r in range(len(reps)):
            if reps[r].get("prefill"):
                t = copy.deepcopy(trace)
                del t["replicas"][r]["prefill"]
                yield t
        # 2. delete sample blocks
        size = n // 2
        while size >= 1:
            for start in range(0, n - size + 1, max(1, size)):
                if n - size < 1:
                    continue
                t = copy.deepcopy(trace)
                t["signal"] = sig[:start] + sig[start + size:]
                for rp in t["replicas"]:
                    rp["cuts"] = sorted(set(c for c in _adjust_cuts(rp["cuts"], start, size) if 0 < c < n - size))
                t["order"] = []
                yield t
            size //= 2
        # 3. merge chunks
        for r, rp in enumerate(reps):
            cuts = rp["cuts"]
            for cand in core.drop_chunks(cuts):
                t = copy.deepcopy(trace)
                t["replicas"][r]["cuts"] = cand
                t["order"] = []
                yield t
    else:
        tw = trace["twin"]
        for key in ("reuse_buffer", "escalate", "twin_mixed", "twin_view"):
            if trace.get(key):
                t = copy.deepcopy(trace)
                t[key] = False
                yield t
        if trace.get("twin_cuts"):
            t = copy.deepcopy(trace)
            t["twin_cuts"] = []
            yield t
            if len(trace["twin_cuts"]) > 1:
                for cand in core.drop_chunks(trace["twin_cuts"], 1):
                    t = copy.deepcopy(trace)
                    t["twin_cuts"] = cand
                    yield t
        if tw.get("ins"):
            for cand in core.drop_chunks(tw["ins"]):
                t = copy.deepcopy(trace)
                t["twin"]["ins"] = cand
                yield t
            for k, (pos, vals) in enumerate(tw["ins"]):
                if len(vals) > 1:
                    for cand in core.drop_chunks(vals, 1):
                        t = copy.deepcopy(trace)
                        t["twin"]["ins"][k] = [pos, cand]
                        yield t
        if tw.get("nan_after") and len(tw["nan_after"]) > 1:
            for cand in core.drop_chunks(tw["nan_after"], 1):
                t = copy.deepcopy(trace)
                t["twin"]["nan_after"] = cand
                yield t
        size = n // 2
        while size >= 1:
            for start in range(0, n - size + 1, max(1, size)):
                if n - size < 2:
                    continue
                t = copy.deepcopy(trace)
                t["signal"] = sig[:start] + sig[start + size:]
                if tw.get("ins"):
                    new = []
                    for pos, vals in tw["ins"]:
                        if pos < start:
                            new.append([pos, vals])
                        elif pos >= start + size:
                            new.append([pos - size, vals])
                    t["twin"]["ins"] = new
                if tw.get("nan_after"):
                    new = []
                    for pos in tw["nan_after"]:
                        if pos < start:
                            new.append(pos)
                        elif pos >= start + size:
                            new.append(pos - size)
                    t["twin"]["nan_after"] = new or [0]
                yield t
            size //= 2
    # value simplification: ranks, then rounding
    vals = sorted(set(sig))
    if any(x != float(int(x)) for x in sig) or (vals and (vals[-1] - vals[0] + 1 > len(vals) * 2)):
        if prop != "C03":
            rank = {v: float(i) for i, v in enumerate(vals)}
            t = copy.deepcopy(trace)
            t["signal"] = [rank[x] for x in sig]
            yield t
    for i in range(n):
        for new in (0.0, 1.0, -1.0):
            if sig[i] != new and abs(sig[i]) > 1 and prop != "C03":
                t = copy.deepcopy(trace)
                t["signal"][i] = new
                yield t
                break


def classify(prop, trace, v):
    return "%s/%s" % (v["oracle"], v["component"])


def describe(prop):
    common_real = ["pylife.stress.rainflow ThreePointDetector/FourPointDetector/FKMDetector (working tree)",
                   "general.find_turns/_new_turns, recorders LoopValueRecorder/FullRecorder, chunk_local_index",
                   "compiled kernel threepoint_loop/fourpoint_loop rebuilt from the working tree's extension.pyx"]
    stub = ["signal source (seeded mixture generator)", "delivery channel: chunking of the signal",
            "scheduler interleaving live detector instances", "stream fault injector (C03)"]
    if prop == "C01":
        return {"level": "exploration", "real": common_real, "stub": stub,
                "rule": ("one run = one seeded signal (1..80 samples; integer walks with ties, plateaus, zig-zags, monotone runs, repeated extremes, floats), "
                         "1-4 live replicas (3-point/4-point/FKM x Full/LoopValue recorder), each with its own partition into non-empty chunks "
                         "(all-ones, random, few, adversarial cuts aimed at turning points and plateaus), served in a seeded interleaving; after EVERY delivery the replica "
                         "is compared with a fresh detector fed the consumed prefix in one piece (I1) and the chunk bookkeeping is mapped back to the delivered chunks (I2). "
                         "distinct_nontrivial counts distinct (detector, recorder, set of border kinds, chunk-count bucket, signal features, residual depth) among replicas with >=2 chunks and >=1 recorded cycle."),
                "assumptions": ["chunks are delivered as float64/float32/integer ndarrays, lists, Series, strided and read-only views, or block by block in the narrowest exact dtype", "differences between two samples stay below DBL_MAX", "one-piece replica of the working tree is the reference for I1 (C02 checks it against an independent definition)",
                                "in 25% of the runs the last chunk is fed with flush=True, and so is the one-piece reference",
                                "in 30% of runs the delivered ndarray buffer is overwritten after process() has returned (a streaming reader re-using one buffer); a divergence that needs the overwrite is reported with component '<detector>:buffer-reuse'"],
                "required_probes": ["border:before-turn", "border:after-turn", "border:in-rev-plateau", "border:in-slope-plateau", "border:monotone",
                                    "probe:three_or_more_chunks", "I2-indices-mapped"]}
    if prop == "C02":
        return {"level": "exploration", "real": common_real, "stub": stub + ["models/rainflow_ref.py: executable four-point / HCM definition (sequential specification)"],
                "rule": ("one run = one seeded signal (>=2 samples) and 1-4 chunked replicas in a seeded interleaving; at every border I4 checks that cycle end points + residual use every turning point of the consumed prefix exactly once "
                         "and every index addresses its value; one-piece replicas of all three detectors and find_turns are compared with the executable definition on the whole signal and 3 prefixes (I3). "
                         "distinct_nontrivial counts distinct (signal features, cycle-count, residual length) of signals with >=1 cycle plus distinct replica schedules as in C01."),
                "assumptions": ["models/rainflow_ref.py is trusted (45 lines, written from the statement)",
                                "differences between two samples stay below DBL_MAX (beyond it the kernels compare inf <= inf; not generated, see DESIGN 9.4)",
                                "thorough tier only: marathon histories (sample counter beyond 2**31 / 2**32) with a closed-form signal and closed-form turning points",
                                "HCM reference follows the FKM-guideline variant: after closing a loop further loops are closed by the same point only while the closed loop lies strictly inside the largest |load| so far"],
                "required_probes": ["probe:cycles_checked", "probe:equal_cycle_ranges", "probe:fkm_cycles", "border:before-turn", "border:in-rev-plateau"]}
    return {"level": "exploration", "real": common_real, "stub": stub,
            "rule": ("one run = one seeded dyadic signal and one twin configuration: dup / mid / dup+mid insertion of non-reversal samples (incl. trailing duplicates and two-sample plateaus on slopes), "
                     "NaN insertion away from the ends, negation, exact positive affine map (3-/4-point), pandas Series with range/shuffled/float/datetime/string/offset/duplicate index; "
                     "for each detector the twin's cycles, residuals and indices must equal the image of the reference replica's. distinct_nontrivial counts distinct (twin kind, detector, signal features, cycle-count bucket) with >=1 cycle."),
            "assumptions": ["signals are dyadic rationals so that affine maps and interpolated samples are exact", "the reference replica is fed in one piece; in 40% of runs the twin is fed in seeded chunks (violations then carry the component '<detector>:chunked')",
                            "a duplicate is inserted after its original; an intermediate sample lies in [left, right) so the plateau-first-sample convention is unambiguous",
                            "neg/affine/container are twin configurations, not faults"],
            "required_probes": ["twin:samevalues", "probe:final_flush", "fault:dup", "fault:mid", "fault:nan", "twin:neg", "twin:affine", "twin:container:string", "twin:container:datetime",
                                "probe:twin_delivered_in_chunks", "probe:nan_last_sample_of_a_chunk"]}


def canary():
    """Fresh detectors on a fixed signal, in two chunks (what they report must never change)."""
    sig = [0.0, 3.0, 1.0, 4.0, 4.0, -2.0, 2.0, -1.0, 5.0, 0.0]
    obs = []
    for det in ("tp", "fp", "fkm"):
        rec = "full" if det != "fkm" else "value"
        d = _mk(det, rec)
        _feed(d, np.array(sig[:4], dtype=np.float64))
        _feed(d, np.array(sig[4:], dtype=np.float64))
        obs.append(observe(d, det, rec))
    ti, tv = find_turns(np.array(sig))
    obs.append([[int(x) for x in ti], [float(x) for x in tv]])
    return obs

"""World "vmapfs": VMAP export/import as a file with I/O faults (C20).

real: VMAPExport, VMAPImport, vmap_structures, h5py + libhdf5 on real files in a
      per-run scratch directory.
stub: fault-injecting wrappers on h5py Group.create_group / create_dataset and
      AttributeManager.create (the seam); the in-memory model models/vmap_ref.py.
"""
import copy
import errno
import os
import shutil
import tempfile

import numpy as np
import pandas as pd
import h5py

from sim import core
from sim.core import Outcome, Log
from models import vmap_ref as ref

import pylife.vmap as vmap
from pylife.vmap import vmap_structures
from pylife.vmap.vmap_export import VMAPExport
from pylife.vmap.vmap_import import VMAPImport

NAME = "vmapfs"

PROPS = {
    "C20": {"quick": {"runs": 1300, "budget_s": 50, "batch": 4, "det_pool": 12, "det_fresh": 4, "min_time_s": 90},
            "thorough": {"runs": 40000, "budget_s": 1100, "batch": 10, "det_pool": 100, "det_fresh": 20, "min_time_s": 240}},
}

# constant metadata: the wall clock / user name must not leak into a run
VMAPExport._metadata = {
    'EXPORTER_NAME': ['ExporterName', 'pyLife'],
    'FILE_DATE': ['FileDate', '2020-01-01'],
    'FILE_TIME': ['FileTime', '00:00:00.000000'],
    'DESCRIPTION': ['Description', ''],
    'ANALYSIS_TYPE': ['Analysis Type', ''],
    'USERID': ['User Id', 'sim'],
}


# ------------------------------------------------------------------ the seam

class Seam:
    """Counts every create_group / create_dataset / attribute-create call and
    can fail the n-th one: mode 'before' raises ENOSPC instead of writing,
    mode 'after' performs the write and then raises EIO (lost acknowledgement)."""

    def __init__(self):
        self.count = 0
        self.armed = None     # (n, mode)
        self.fired = None
        self.kinds = []
        self._orig = None

    def install(self):
        G = h5py.Group
        A = h5py.AttributeManager
        self._orig = (G.create_group, G.create_dataset, A.create)
        seam = self

        def wrap(orig, kind):
            def f(self_, *a, **kw):
                n = seam.count
                seam.count += 1
                seam.kinds.append(kind)
                if seam.armed is not None and seam.armed[0] == n:
                    mode = seam.armed[1]
                    seam.fired = (n, mode, kind)
                    seam.armed = None
                    if mode == "before":
                        raise OSError(errno.ENOSPC, "simulated: no space left on device")
                    r = orig(self_, *a, **kw)
                    raise OSError(errno.EIO, "simulated: I/O error after write")
                return orig(self_, *a, **kw)
            return f
        G.create_group = wrap(self._orig[0], "create_group")
        G.create_dataset = wrap(self._orig[1], "create_dataset")
        A.create = wrap(self._orig[2], "attr_create")

    def uninstall(self):
        G = h5py.Group
        A = h5py.AttributeManager
        G.create_group, G.create_dataset, A.create = self._orig

    def reset(self, armed=None):
        self.count = 0
        self.armed = armed
        self.fired = None
        self.kinds = []


# ------------------------------------------------------------------ generation

ELEM_2D = [3, 4, 6, 8]
ELEM_3D = [4, 6, 8, 10, 15, 20]


def _val(rng):
    r = rng.random()
    if r < 0.15:
        return float(rng.randint(-3, 3))
    if r < 0.2:
        return 0.0
    return rng.uniform(-1e3, 1e3) if r < 0.9 else rng.uniform(-1, 1) * 10.0 ** rng.randint(-8, 8)


def gen_mesh(rng, force_valid=True):
    dim = rng.choice([2, 2, 3, 3])
    if dim == 2:
        z = rng.choice(["none", "const", "const"])
        pool_types = ELEM_2D
    else:
        z = "vary"
        pool_types = ELEM_3D
    mixed = rng.random() < 0.45
    types = rng.sample(pool_types, rng.randint(2, 3)) if mixed else [rng.choice(pool_types)]
    n_el = rng.randint(1, 5)
    id_mode = rng.choice(["small", "small", "gaps", "huge"])

    def ids(k, lo_small):
        if id_mode == "small":
            start = rng.choice([1, 1, 0, 7])
            return list(range(start, start + k))
        if id_mode == "gaps":
            return sorted(rng.sample(range(1, 10 * k + 20), k))
        return sorted(rng.sample(range(1, 2 ** 31 - 1), k))

    el_ids = ids(n_el, 1)
    el_nodes_n = [rng.choice(types) for _ in range(n_el)]
    n_nodes_total = max(max(el_nodes_n), int(sum(el_nodes_n) * rng.choice([0.5, 0.8, 1.0])))
    node_ids = ids(n_nodes_total, 1)
    elements = []
    for e, k in zip(el_ids, el_nodes_n):
        elements.append([e, rng.sample(node_ids, k)])
    if rng.random() < 0.5:
        rng.shuffle(elements)            # element blocks in arbitrary row order
    used = sorted({n for _, nodes in elements for n in nodes})
    coords = {}
    zc = _val(rng)
    for n in used:
        c = [_val(rng), _val(rng)]
        if z == "const":
            c.append(zc)
        elif z == "vary":
            c.append(_val(rng))
        coords[str(n)] = c
    if len(used) > 1 and rng.random() < 0.3:
        # distinct nodes at the same position (tied contact, crack faces, duplicated interface nodes)
        for _ in range(rng.randint(1, 3)):
            a, b = rng.sample(used, 2)
            coords[str(b)] = list(coords[str(a)])
    if z == "vary":
        zs = [c[2] for c in coords.values()]
        if all(v == zs[0] for v in zs):
            coords[str(used[0])][2] = zs[0] + 1.0
    mesh = {"z": z, "elements": elements, "coords": coords, "nodal": {}, "elnodal": {}}
    n_rows = sum(len(nodes) for _, nodes in elements)
    mesh["nodal"]["DISPLACEMENT"] = {str(n): [_val(rng) for _ in range(3)] for n in used}
    mesh["nodal"]["TEMP"] = {str(n): [_val(rng)] for n in used}
    mesh["elnodal"]["STRESS_CAUCHY"] = [[_val(rng) for _ in range(6)] for _ in range(n_rows)]
    mesh["elnodal"]["E"] = [[_val(rng) for _ in range(6)] for _ in range(n_rows)]
    mesh["elnodal"]["CUSTOM2"] = [[_val(rng) for _ in range(2)] for _ in range(n_rows)]
    if rng.random() < 0.3:
        # some columns hold whole numbers and are kept in an integer dtype in the user's frame
        # (a displacement component that is identically zero, a constrained direction, ...)
        icols = []
        for src in ("DISPLACEMENT", "STRESS_CAUCHY", "CUSTOM2", "E"):
            if rng.random() < 0.5:
                ci = rng.choice([0, 0, 1])
                icols.append(SRC_COLUMNS[src][ci])
                if src in mesh["nodal"]:
                    for n in mesh["nodal"][src]:
                        mesh["nodal"][src][n][ci] = float(rng.randint(-3, 3))
                else:
                    for row in mesh["elnodal"][src]:
                        row[ci] = float(rng.randint(-3, 3))
        mesh["int_columns"] = icols
    return mesh


VAR_DEFS = [
    # (variable name, source key, kind, columns arg, location arg)
    ("DISPLACEMENT", "DISPLACEMENT", "nodal", None, None),
    ("STRESS_CAUCHY", "STRESS_CAUCHY", "elnodal", None, None),
    ("E", "E", "elnodal", None, None),
    ("TEMPERATURE", "TEMP", "nodal", ["T"], "NODE"),
    ("MY_FIELD", "CUSTOM2", "elnodal", ["c1", "c2"], "ELEMENT_NODAL"),
    ("DISPLACEMENT", "DISPLACEMENT", "nodal", ["dx", "dy", "dz"], "NODE"),
    ("DISPLACEMENT", "DISPLACEMENT", "nodal", ["dx", "dy"], "NODE"),          # plane result under the standard name
    ("STRESS_CAUCHY", "STRESS_CAUCHY", "elnodal", ["S11", "S22", "S33", "S12"], "ELEMENT_NODAL"),
    # a standard name stored at another location than the registered one, said explicitly
    ("DISPLACEMENT", "E", "elnodal", ["ux", "uy", "uz"], "ELEMENT_NODAL"),
    ("STRESS_CAUCHY", "DISPLACEMENT", "nodal", ["sx", "sy", "sz"], "NODE"),
]
SRC_COLUMNS = {"DISPLACEMENT": ["dx", "dy", "dz"], "TEMP": ["T"],
               "STRESS_CAUCHY": ["S11", "S22", "S33", "S12", "S13", "S23"],
               "E": ["E11", "E22", "E33", "E12", "E13", "E23"], "CUSTOM2": ["c1", "c2"]}


def expand_procedural(spec):
    """A big strip of triangles written as a rule (the trace stays small): n_nodes nodes, ids with a gap,
    every node used, 2-D without z."""
    n = int(spec["n_nodes"])
    gap = int(spec.get("id_gap", 1))
    ids = [1 + gap * i for i in range(n)]
    elements = []
    e = 1
    for i in range(0, n - 2, 2):
        elements.append([e, [ids[i], ids[i + 1], ids[i + 2]]])
        e += 1 + (gap > 1)
    if n % 2 == 0:
        elements.append([e, [ids[n - 3], ids[n - 2], ids[n - 1]]])
    coords = {str(nid): [0.5 * i, 0.25 * (i % 7)] for i, nid in enumerate(ids)}
    disp = {str(nid): [float(i % 5), 0.125 * (i % 3), -1.0 * (i % 2)] for i, nid in enumerate(ids)}
    n_rows = 3 * len(elements)
    return {"z": "none", "elements": elements, "coords": coords,
            "nodal": {"DISPLACEMENT": disp, "TEMP": {str(nid): [float(i % 11)] for i, nid in enumerate(ids)}},
            "elnodal": {"CUSTOM2": [[float(r % 13), 0.5 * (r % 4)] for r in range(n_rows)]}}


def generate(prop, rng, tier):
    if rng.random() < 0.015:
        # sizes around powers of two (block-wise writes, 16-bit counters): one big mesh, a short history
        n = rng.choice([65535, 65536, 65537, 65538, 131073])
        ops = [{"op": "add_geometry", "geom": "big", "mesh": "m0"},
               {"op": "add_set", "kind": "n", "geom": "big", "mesh": "m0", "ids": [1, 1 + 2 * (n // 3)], "name": "two"},
               {"op": "add_variable", "state": "S", "geom": "big", "mesh": "m0", "var": "DISPLACEMENT", "source": "DISPLACEMENT",
                "columns": None, "location": None, "drop_columns": False, "block_perm": None},
               {"op": "read"}]
        return {"world": NAME, "meshes": {"m0": {"procedural": {"n_nodes": n, "id_gap": 2}}}, "ops": ops, "faults": None,
                "kept_frames": rng.random() < 0.5, "level_order": "en", "interleave": None}
    n_mesh = rng.choice([1, 2, 2, 3])
    meshes = {"m%d" % i: gen_mesh(rng) for i in range(n_mesh)}
    ops = []
    geoms = {}      # name -> mesh key (as the generator believes)
    n_ops = rng.randint(4, 12) if rng.random() > 0.03 else rng.randint(25, 40)
    gnames = ["1", "2", "part-A", "geo 3"]
    states = ["STATE-1", "STATE-2", "s"]
    set_counter = 0
    while len(ops) < n_ops:
        r = rng.random()
        if not geoms or r < 0.22:
            name = rng.choice(gnames)
            mk = rng.choice(sorted(meshes))
            if name in geoms and rng.random() < 0.7:
                continue
            ops.append({"op": "add_geometry", "geom": name, "mesh": mk})
            geoms.setdefault(name, mk)
        elif r < 0.42:
            g = rng.choice(sorted(geoms)) if rng.random() < 0.93 else "nope"
            mk = geoms.get(g, sorted(meshes)[0])
            m = meshes[mk]
            kind = rng.choice(["n", "e"])
            pool = sorted({n for _, nodes in m["elements"] for n in nodes}) if kind == "n" else sorted(e for e, _ in m["elements"])
            k = rng.randint(1, len(pool)) if rng.random() > 0.04 else 0       # now and then an empty set
            idl = rng.sample(pool, k)
            if rng.random() < 0.5:
                idl.sort()
            if rng.random() < 0.06:
                idl = idl + [max(pool) + 5]       # not a subset -> must raise
            set_counter += 1
            name = "set%d" % set_counter
            rr = rng.random()
            if set_counter == 1 and rr > 0.6:
                name = None                       # default name (stored as '')
            elif 0.05 <= rr < 0.13:
                # assembly-qualified names: long, and equal to each other for the first 80+ characters
                name = "ASSEMBLY_" + "Part-1_Instance-%s_" % ("0123456789" * rng.choice([7, 9, 12])) + "SURF-%d" % set_counter
            elif 0.13 <= rr < 0.18:
                name = "Fl\u00e4che \u2116%d / \u0394" % set_counter     # not ASCII
            if rr < 0.05:
                name = 17                         # invalid type -> must raise
            ops.append({"op": "add_set", "kind": kind, "geom": g, "mesh": mk, "ids": idl, "name": name})
        elif r < 0.78:
            g = rng.choice(sorted(geoms)) if rng.random() < 0.95 else "nope"
            mk = geoms.get(g, sorted(meshes)[0])
            vd = rng.choice(VAR_DEFS)
            op = {"op": "add_variable", "state": rng.choice(states), "geom": g, "mesh": mk,
                  "var": vd[0], "source": vd[1], "columns": vd[3], "location": vd[4], "drop_columns": False,
                  "block_perm": rng.randint(1, 10 ** 6) if rng.random() < 0.35 else None}
            rr = rng.random()
            if rr < 0.05:
                op["location"] = "bad"            # wrong location type -> must raise
            elif rr < 0.10 and vd[3] is not None:
                op["location"] = None             # unknown variable w/o location -> must raise (unless known)
            elif rr < 0.15 and vd[3] is not None:
                op["columns"] = None              # unknown variable w/o column names -> must raise (unless known)
            elif rr < 0.22:
                op["drop_columns"] = True         # columns missing in the mesh -> fails inside the try -> roll-back
            ops.append(op)
        elif r < 0.84:
            # invalid geometry: unsupported node count or missing coordinate column -> roll-back path
            name = rng.choice(gnames) + "-x"
            mk = rng.choice(sorted(meshes))
            ops.append({"op": "add_geometry", "geom": name, "mesh": mk,
                        "sabotage": rng.choice(["drop_y", "extra_node"])})
        elif r < 0.88 and geoms:
            g = rng.choice(sorted(geoms)) if rng.random() < 0.85 else "nope"
            ops.append({"op": "set_attr", "geom": g, "value": rng.choice(["PART", "my geometry", "x"])})
        elif r < 0.93:
            # the owner updates its mesh frame in place (next load state: new nodal values; or a deformed mesh)
            ops.append({"op": "mutate_mesh", "mesh": rng.choice(sorted(meshes)), "what": rng.choice(["nodal", "nodal", "coords", "elnodal"]),
                        "seed": rng.randint(0, 10 ** 6)})
        else:
            ops.append({"op": "read"})
    ops.append({"op": "read"})
    tr = {"world": NAME, "meshes": meshes, "ops": ops, "faults": None,
          # the user keeps ONE DataFrame object per mesh and hands it to every call (and changes it in place
          # between calls), or builds a fresh frame for every call
          "kept_frames": rng.random() < 0.5,
          "level_order": rng.choice(["en", "en", "ne"]),
          "interleave": rng.randint(1, 10 ** 6) if rng.random() < 0.25 else None,
          # columns are identified by name: the frame may carry them in any order
          "column_order": rng.randint(1, 10 ** 6) if rng.random() < 0.3 else None}
    mode = rng.random()
    cand = [i for i, o in enumerate(ops) if o["op"] not in ("read", "set_attr", "mutate_mesh")]
    if mode < 0.7 and cand:
        k = rng.choice(cand)
        if tier == "thorough":
            tr["faults"] = {"op": k, "points": "all"}
        else:
            tr["faults"] = {"op": k, "points": [[rng.randint(0, 24), rng.choice(["before", "after"])] for _ in range(5)]}
    return tr


# ------------------------------------------------------------------ frames

class Frames:
    """Frame policy of a run: fresh frame per call, or one kept object per mesh that is mutated in place."""

    def __init__(self, kept, level_order, interleave=None, column_order=None):
        self.column_order = column_order
        self.kept = kept
        self.level_order = level_order
        self.interleave = interleave
        self.cache = {}

    def get(self, key, mesh, sabotage=None):
        if sabotage or not self.kept:
            return self._order(mesh_frame(mesh, sabotage))
        if key not in self.cache:
            self.cache[key] = self._order(mesh_frame(mesh))
        return self.cache[key]

    def _order(self, df):
        if self.interleave:
            # rows of different elements interleaved; the node order inside every element is kept
            import random as _r
            rr = _r.Random(int(self.interleave))
            eids = [int(e) for e in df.index.get_level_values("element_id")]
            queues = {}
            for pos, e in enumerate(eids):
                queues.setdefault(e, []).append(pos)
            order = []
            live = [e for e in queues]
            while live:
                e = rr.choice(live)
                order.append(queues[e].pop(0))
                if not queues[e]:
                    live.remove(e)
            df = df.iloc[order]
        if self.level_order == "ne":
            df = df.swaplevel()            # levels are identified by name: (node_id, element_id) is as valid
        if self.column_order:
            import random as _r
            cols = list(df.columns)
            _r.Random(int(self.column_order)).shuffle(cols)
            df = df[cols]
        return df

    def mutated(self, key, mesh):
        """The mesh spec has been changed: update the kept frame IN PLACE (same object)."""
        if key in self.cache:
            new = self._order(mesh_frame(mesh))
            df = self.cache[key]
            for c in new.columns:
                df[c] = new[c].to_numpy()


FRAMES = [None]


def mesh_frame(mesh, sabotage=None):
    rows = ref.mesh_rows(mesh)
    elements = mesh["elements"]
    if sabotage == "extra_node":
        e0, nodes0 = elements[0]
        rows = rows + [(int(e0), int(max(int(k) for k in mesh["coords"])) + 1)]
    idx = pd.MultiIndex.from_tuples(rows, names=["element_id", "node_id"])
    cols = ref.coord_columns(mesh)
    data = {}
    for ci, c in enumerate(cols):
        data[c] = [mesh["coords"].get(str(n), [0.0, 0.0, 0.0])[ci] for _, n in rows]
    n_real = len(ref.mesh_rows(mesh))
    for src, per_node in mesh["nodal"].items():
        for ci, c in enumerate(SRC_COLUMNS[src]):
            data[c] = [per_node.get(str(n), [0.0] * 3)[ci] for _, n in rows]
    for src, vals in mesh["elnodal"].items():
        for ci, c in enumerate(SRC_COLUMNS[src]):
            col = [v[ci] for v in vals]
            col += [0.0] * (len(rows) - n_real)
            data[c] = col
    df = pd.DataFrame(data, index=idx, dtype=np.float64)
    for c in mesh.get("int_columns", []):
        if c in df.columns and np.array_equal(np.round(df[c].to_numpy()), df[c].to_numpy()):
            df[c] = df[c].astype(np.int64)
    if sabotage == "drop_y":
        df = df.drop(columns=["y"])
    return df


# ------------------------------------------------------------------ applying one op to the real exporter

def call_real(exp, op, meshes):
    """Returns None if the call returned, else the exception."""
    kind = op["op"]
    mesh = meshes[op["mesh"]]
    try:
        fr = FRAMES[0]
        if kind == "add_geometry":
            exp.add_geometry(op["geom"], fr.get(op["mesh"], mesh, op.get("sabotage")))
        elif kind == "add_set":
            ids = pd.Index([int(i) for i in op["ids"]], dtype="int64")
            f = exp.add_node_set if op["kind"] == "n" else exp.add_element_set
            f(op["geom"], ids, fr.get(op["mesh"], mesh), op["name"])
        elif kind == "add_variable":
            df = fr.get(op["mesh"], mesh)
            plain = not (op.get("block_perm") or op.get("drop_columns") or (op["columns"] is not None and op["columns"] != SRC_COLUMNS[op["source"]]))
            if not plain:
                df = df.copy()
            if op.get("block_perm"):
                # the same mesh as another valid frame: element blocks in another row order
                import random as _r
                eids = list(dict.fromkeys(int(e) for e in df.index.get_level_values("element_id")))
                _r.Random(int(op["block_perm"])).shuffle(eids)
                df = pd.concat([df[df.index.get_level_values("element_id") == e] for e in eids])
            src_cols = SRC_COLUMNS[op["source"]]
            cols = op["columns"]
            if cols is not None and cols != src_cols:
                df = df.rename(columns=dict(zip(src_cols, cols)))
            if op.get("drop_columns"):
                use = cols or ref.KNOWN_VARS.get(op["var"], (src_cols,))[0]
                df = df.drop(columns=[use[-1]], errors="ignore")
            loc = op["location"]
            if loc == "bad":
                loc_arg = 2
            elif loc is None:
                loc_arg = None
            else:
                loc_arg = vmap_structures.VariableLocations[loc]
            exp.add_variable(op["state"], op["geom"], op["var"], df, column_names=cols, location=loc_arg)
        else:
            raise ValueError(kind)
    except Exception as e:      # noqa - everything pyLife/h5py raises is an observation
        return e
    return None


def model_ok(model, op, meshes):
    kind = op["op"]
    mesh = meshes[op["mesh"]]
    if kind == "add_geometry":
        if op.get("sabotage") == "extra_node":
            n0 = len(mesh["elements"][0][1]) + 1
            ok_nodes = ref.NODES_2D if ref.mesh_dimension(mesh) == 2 else ref.NODES_3D
            return None if n0 in ok_nodes else False      # the sabotage may produce another supported element
        if op.get("sabotage"):
            return False
        return model.geometry_call_ok(op["geom"], mesh)
    if kind == "add_set":
        return model.set_call_ok(op["geom"], op["kind"], op["ids"], mesh, op["name"])
    if kind == "add_variable":
        if op["geom"] in model.geoms and model.geoms[op["geom"]]["elements"] != mesh["elements"]:
            # a variable written from another mesh than the geometry's is not a valid input
            return None
        src_cols = SRC_COLUMNS[op["source"]]
        cols = op["columns"]
        avail = set(ref.coord_columns(mesh))
        for s, c in SRC_COLUMNS.items():
            avail |= set(c if not (s == op["source"] and cols is not None) else cols)
        if op.get("drop_columns"):
            use = cols or ref.KNOWN_VARS.get(op["var"], (src_cols,))[0]
            avail.discard(use[-1])
        if cols is None and op["var"] in ref.KNOWN_VARS and ref.KNOWN_VARS[op["var"]][0] != src_cols:
            return False
        loc = op["location"]
        ok = model.variable_call_ok(op["state"], op["geom"], op["var"], mesh, cols, loc, avail)
        if ok:
            eff_loc = loc or ref.KNOWN_VARS[op["var"]][1]
            src_kind = "NODE" if op["source"] in mesh["nodal"] else "ELEMENT_NODAL"
            if eff_loc != src_kind and eff_loc == "NODE":
                return None    # element-nodal data declared nodal: not a valid input
        return ok
    raise ValueError(kind)


def model_apply(model, op, meshes):
    kind = op["op"]
    mesh = meshes[op["mesh"]]
    if kind == "add_geometry":
        model.add_geometry(op["geom"], mesh)
    elif kind == "add_set":
        model.add_set(op["geom"], op["kind"], op["ids"], op["name"])
    else:
        model.add_variable(op["state"], op["geom"], op["var"], mesh, op["columns"], op["location"], op["source"])


def op_target(op):
    if op["op"] == "add_geometry":
        return ("geometry", op["geom"])
    if op["op"] == "add_variable":
        return ("variable", op["state"], op["geom"], op["var"])
    return ("set", op["geom"])


# ------------------------------------------------------------------ verification of the file against the model

def _close(imp):
    """The importer has no close(); release whatever HDF5 handle it holds so that the
    exporter can reopen the file (found by type, not by attribute name)."""
    try:
        for v in list(vars(imp).values()):
            if isinstance(v, h5py.File):
                try:
                    v.close()
                except Exception:   # noqa
                    pass
    except Exception:   # noqa
        pass
    import gc
    del imp
    gc.collect()


def verify(path, model, out, log, step, absent=None, deep=True):
    """V1/V2/V4: open the file read-only with the public importer and compare
    everything acknowledged with the model.  Returns False on violation."""
    ok = True
    raw = None
    try:
        imp = VMAPImport(path)
    except Exception as e:   # noqa
        out.violate("V1-readable", "open", {"step": step, "type": type(e).__name__, "msg": str(e)})
        return False
    try:
        try:
            geoms = sorted(imp.geometries())
        except Exception as e:   # noqa
            out.violate("V1-readable", "geometries", {"step": step, "type": type(e).__name__, "msg": str(e)})
            return False
        log.add("verify", step, geoms)
        if absent is not None and absent[0] == "geometry":
            if absent[1] in geoms and absent[1] not in model.geoms:
                out.violate("V2-failed-leaves-nothing", "geometry", {"step": step, "partial_geometry": absent[1]})
                return False
        if geoms != sorted(model.geoms):
            out.violate("V1-acknowledged-durable" if set(model.geoms) - set(geoms) else "V2-failed-leaves-nothing",
                        "geometry-list", {"step": step, "file": geoms, "model": sorted(model.geoms)})
            return False
        try:
            listed_states = set(imp.states())
        except Exception as e:   # noqa
            out.violate("V1-readable", "states", {"step": step, "type": type(e).__name__, "msg": str(e)})
            return False
        if listed_states != set(k[0] for k in model.vars):
            # also: no state without any acknowledged variable (the empty shell of a failed add_variable)
            out.violate("V1-acknowledged-durable" if set(k[0] for k in model.vars) - listed_states else "V2-failed-leaves-nothing",
                        "state-list", {"step": step, "states_in_file": sorted(listed_states),
                                       "states_in_model": sorted(set(k[0] for k in model.vars))})
            return False
        if not set(k[0] for k in model.vars) <= listed_states:
            out.violate("V1-acknowledged-durable", "variable-list", {"step": step, "states_in_file": sorted(listed_states),
                                                                     "states_in_model": sorted(set(k[0] for k in model.vars))})
            return False
        raw = h5py.File(path, "r")
        for g in geoms:
            mesh = model.geoms[g]
            ok = _verify_geometry(imp, raw, g, mesh, model, out, log, step) and ok
            if not ok:
                return False
        # variables
        vg = raw["/VMAP/VARIABLES"]
        for state in vg:
            for g in vg[state]:
                grp = vg[state][g]
                names = sorted(grp.keys())
                want = sorted(v for (s, gg, v) in model.vars if s == state and gg == g)
                if not want:
                    out.violate("V2-failed-leaves-nothing", "state-list", {"step": step, "state": state, "empty_geometry_group": g})
                    return False
                if names != want:
                    out.violate("V1-acknowledged-durable" if set(want) - set(names) else "V2-failed-leaves-nothing",
                                "variable-list", {"step": step, "state": state, "geometry": g, "file": names, "model": want})
                    return False
                if "MYSIZE" in grp.attrs and int(grp.attrs["MYSIZE"]) != len(want):
                    out.violate("V2-failed-leaves-nothing", "variable-counter",
                                {"step": step, "state": state, "geometry": g, "MYSIZE": int(grp.attrs["MYSIZE"]), "variables": want})
                    return False
        for (s_, g_) in sorted({(k[0], k[1]) for k in model.vars}):
            try:
                listed = sorted(imp.variables(g_, s_))
            except Exception as e:   # noqa
                out.violate("V1-acknowledged-durable", "variable-list", {"step": step, "state": s_, "geometry": g_, "type": type(e).__name__, "msg": str(e)[:200]})
                return False
            want_l = sorted(k[2] for k in model.vars if k[0] == s_ and k[1] == g_)
            if listed != want_l:
                out.violate("V1-acknowledged-durable", "variable-list", {"step": step, "state": s_, "geometry": g_, "file": listed, "model": want_l})
                return False
        for (s, g, v) in sorted(model.vars):
            if s not in vg or g not in vg[s] or v not in vg[s][g]:
                out.violate("V1-acknowledged-durable", "variable-list", {"step": step, "missing": [s, g, v]})
                return False
        if deep:
            for (s, g, v) in sorted(model.vars):
                if not _verify_variable(imp, s, g, v, model, out, log, step):
                    return False
            if not _verify_state_chain(imp, model, out, log, step):
                return False
    finally:
        _close(imp)
        try:
            raw.close()
        except Exception:   # noqa
            pass
    return ok


def _frame_rows(df):
    return [(int(e), int(n)) for e, n in df.index]


def _verify_geometry(imp, raw, g, mesh, model, out, log, step):
    want_idx = ref.expected_index(mesh)
    cols = ref.coord_columns(mesh)
    try:
        df = imp.make_mesh(g).join_coordinates().to_frame()
        df2 = imp.make_mesh(g).join_coordinates().to_frame()
    except Exception as e:   # noqa
        out.violate("V1-acknowledged-durable", "geometry-read", {"step": step, "geometry": g, "type": type(e).__name__, "msg": str(e),
                                                                  "z": mesh["z"]})
        return False
    if list(df.index.names) != ["element_id", "node_id"] or _frame_rows(df) != want_idx:
        out.violate("V1-acknowledged-durable", "geometry-rows", {"step": step, "geometry": g, "file": _frame_rows(df)[:60], "model": want_idx[:60]})
        return False
    for ci, c in enumerate(cols):
        if c not in df.columns:
            out.violate("V1-acknowledged-durable", "geometry-coordinates", {"step": step, "geometry": g, "missing_column": c})
            return False
        got = [float(x) for x in df[c].to_numpy()]
        want = [mesh["coords"][str(n)][ci] for _, n in want_idx]
        if got != want:
            out.violate("V1-acknowledged-durable", "geometry-coordinates", {"step": step, "geometry": g, "column": c, "file": got[:40], "model": want[:40]})
            return False
    if not df.equals(df2):
        out.violate("V4-repeatable-read", "geometry", {"step": step, "geometry": g})
        return False
    # node table on its own
    try:
        nd = imp.nodes(g)
        got_nodes = {int(i): [float(x) for x in row] for i, row in zip(nd.index, nd[cols].to_numpy())}
    except Exception as e:   # noqa
        out.violate("V1-acknowledged-durable", "geometry-read", {"step": step, "geometry": g, "call": "nodes()", "type": type(e).__name__, "msg": str(e)[:200]})
        return False
    want_nodes = {int(n): [float(x) for x in c] for n, c in mesh["coords"].items()}
    if got_nodes != want_nodes or len(nd) != len(want_nodes):
        out.violate("V1-acknowledged-durable", "geometry-coordinates", {"step": step, "geometry": g, "call": "nodes()",
                                                                        "file_nodes": sorted(got_nodes)[:30], "model_nodes": sorted(want_nodes)[:30]})
        return False
    log.add("geom", step, g, len(want_idx))
    # counters of the geometry
    gg = raw["/VMAP/GEOMETRY/" + g]
    n_sets_file = len(gg["GEOMETRYSETS"].keys())
    want_sets = model.sets[g]
    if n_sets_file != len(want_sets) or int(gg["GEOMETRYSETS"].attrs["MYSIZE"]) != len(want_sets):
        out.violate("V1-acknowledged-durable" if n_sets_file < len(want_sets) else "V2-failed-leaves-nothing", "set-counter",
                    {"step": step, "geometry": g, "groups": n_sets_file, "MYSIZE": int(gg["GEOMETRYSETS"].attrs["MYSIZE"]), "model": len(want_sets)})
        return False
    # sets through the public importer
    if want_sets:
        for kind, lister, flt, level in (("n", imp.node_sets, "filter_node_set", 1), ("e", imp.element_sets, "filter_element_set", 0)):
            wanted = [(nm, ids) for k, nm, ids in want_sets if k == kind]
            try:
                names = sorted(lister(g))
            except Exception as e:   # noqa
                out.violate("V1-acknowledged-durable", "set-list", {"step": step, "geometry": g, "type": type(e).__name__, "msg": str(e)})
                return False
            if names != sorted(nm for nm, _ in wanted):
                out.violate("V1-acknowledged-durable", "set-list", {"step": step, "geometry": g, "kind": kind, "file": names,
                                                                    "model": sorted(nm for nm, _ in wanted)})
                return False
            for nm, ids in wanted:
                try:
                    f = getattr(imp.make_mesh(g), flt)(nm).to_frame()
                except Exception as e:   # noqa
                    out.violate("V4-filter-exact", "set-filter", {"step": step, "geometry": g, "set": nm, "type": type(e).__name__, "msg": str(e)})
                    return False
                idset = set(ids)
                want_rows = [r for r in want_idx if r[level] in idset]
                if _frame_rows(f) != want_rows:
                    out.violate("V4-filter-exact", "set-filter", {"step": step, "geometry": g, "set": nm, "kind": kind,
                                                                  "file": _frame_rows(f)[:40], "model": want_rows[:40]})
                    return False
                out.count("probe:set_filtered")
                # filtered mesh with coordinates and a variable joined afterwards
                vs = sorted(k for k in model.vars if k[1] == g)
                if vs and want_rows:
                    st_, _, vn = vs[0]
                    spec = model.vars[vs[0]]
                    try:
                        fj = getattr(imp.make_mesh(g, st_), flt)(nm).join_coordinates().join_variable(vn, column_names=spec["columns"]).to_frame()
                    except Exception as e:   # noqa
                        out.violate("V4-filter-exact", "filter-then-join", {"step": step, "geometry": g, "set": nm, "variable": list(vs[0]),
                                                                            "type": type(e).__name__, "msg": str(e)[:200]})
                        return False
                    wantv = model.expected_variable(*vs[0])
                    gotv = fj[spec["columns"]].to_numpy()
                    okj = _frame_rows(fj) == want_rows
                    if okj:
                        for rr, key in enumerate(want_rows):
                            if [float(x) for x in gotv[rr]] != [float(x) for x in (wantv[key] or [])][:len(spec["columns"])]:
                                okj = False
                                break
                        for ci, c in enumerate(cols):
                            if [float(x) for x in fj[c].to_numpy()] != [mesh["coords"][str(n)][ci] for _, n in want_rows]:
                                okj = False
                    if not okj:
                        out.violate("V4-filter-exact", "filter-then-join", {"step": step, "geometry": g, "set": nm, "variable": list(vs[0])})
                        return False
                    out.count("probe:filter_then_join")
        # filter chains: an element set and a node set applied one after the other, in both orders - the rows that
        # are members of both (only where such rows exist: an empty selection is not a mesh)
        nsets = [(nm, set(ids)) for k, nm, ids in want_sets if k == "n"]
        esets = [(nm, set(ids)) for k, nm, ids in want_sets if k == "e"]
        for en, eids in esets[:3]:
            for nn, nids in nsets[:3]:
                want_rows = [r for r in want_idx if r[0] in eids and r[1] in nids]
                if not want_rows:
                    out.count("skipped:filter_chain_empty_selection")
                    continue
                for order in ("e-n", "n-e"):
                    try:
                        m = imp.make_mesh(g)
                        m = m.filter_element_set(en).filter_node_set(nn) if order == "e-n" else m.filter_node_set(nn).filter_element_set(en)
                        f = m.to_frame()
                    except Exception as e:   # noqa
                        out.violate("V4-filter-exact", "filter-chain", {"step": step, "geometry": g, "sets": [en, nn], "order": order,
                                                                        "type": type(e).__name__, "msg": str(e)[:200]})
                        return False
                    if _frame_rows(f) != want_rows:
                        out.violate("V4-filter-exact", "filter-chain", {"step": step, "geometry": g, "sets": [en, nn], "order": order,
                                                                        "file": _frame_rows(f)[:40], "model": want_rows[:40]})
                        return False
                    out.count("probe:filter_chain_" + order)
    return True


def _verify_state_chain(imp, model, out, log, step):
    """A read chain across two states of one geometry: make_mesh(g, A).join_variable(X, B).join_variable(Y)
    - the documented rule is that a join without a state uses the state defined last (B)."""
    by_geom = {}
    for (s, g, v) in sorted(model.vars):
        by_geom.setdefault(g, {}).setdefault(s, []).append(v)
    for g, per_state in sorted(by_geom.items()):
        states = sorted(per_state)
        if len(states) < 2:
            continue
        for a in states:
            for b in states:
                if a == b:
                    continue
                x = per_state[b][0]
                y = per_state[b][-1]
                sx, sy = model.vars[(b, g, x)], model.vars[(b, g, y)]
                if x != y and set(sx["columns"]) & set(sy["columns"]):
                    continue
                try:
                    m = imp.make_mesh(g, a).join_variable(x, b, column_names=sx["columns"])
                    if y != x:
                        m = m.join_variable(y, column_names=sy["columns"])
                    else:
                        m = imp.make_mesh(g, a).join_variable(x, b, column_names=sx["columns"])
                        m = imp.make_mesh(g, a).join_variable(per_state[a][0], column_names=model.vars[(a, g, per_state[a][0])]["columns"]) \
                            if False else m
                    df = m.to_frame()
                except Exception as e:   # noqa
                    out.violate("V4-repeatable-read", "state-chain", {"step": step, "geometry": g, "mesh_state": a, "join_state": b, "variables": [x, y],
                                                                     "type": type(e).__name__, "msg": str(e)[:200]})
                    return False
                want_idx = ref.expected_index(model.geoms[g])
                if _frame_rows(df) != want_idx:
                    out.violate("V4-repeatable-read", "state-chain:rows", {"step": step, "geometry": g, "mesh_state": a, "join_state": b})
                    return False
                for var, spec in ((x, sx), (y, sy)):
                    want = model.expected_variable(b, g, var)
                    got = df[spec["columns"]].to_numpy()
                    for r, key in enumerate(want_idx):
                        w = want[key]
                        w = w[:len(spec["columns"])] if w is not None else None
                        if w is None or [float(q) for q in got[r]] != [float(q) for q in w]:
                            out.violate("V4-repeatable-read", "state-chain:values",
                                        {"step": step, "geometry": g, "mesh_state": a, "join_state": b, "variable": var, "row": list(key),
                                         "file": [float(q) for q in got[r]], "model": w})
                            return False
                out.count("probe:read_chain_across_states")
                if (a, g, y) in model.vars and model.expected_variable(a, g, y) != model.expected_variable(b, g, y):
                    out.count("probe:read_chain_states_differ")
    return True


def _verify_variable(imp, s, g, v, model, out, log, step):
    spec = model.vars[(s, g, v)]
    cols = spec["columns"]
    known = v in ref.KNOWN_VARS and ref.KNOWN_VARS[v][0] == cols
    if v in ref.KNOWN_VARS and not known:
        # a known variable stored with other components (a plane result: dx, dy only): the reader first tries
        # the default names.  That either works (same number of components) or is refused; in both cases it
        # is a read and may not change anything for anybody.
        try:
            imp.make_mesh(g, s).join_variable(v).to_frame()
            out.count("probe:default_names_accepted")
        except Exception:   # noqa
            out.count("fault:default_names_refused")
    try:
        m = imp.make_mesh(g, s)
        m = m.join_variable(v) if known else m.join_variable(v, column_names=cols)
        df = m.to_frame()
        df2 = imp.make_mesh(g).join_variable(v, s, column_names=cols).to_frame()
    except Exception as e:   # noqa
        out.violate("V1-acknowledged-durable", "variable-read", {"step": step, "variable": [s, g, v], "type": type(e).__name__, "msg": str(e)})
        return False
    want = model.expected_variable(s, g, v)
    want_idx = ref.expected_index(model.geoms[g])
    if _frame_rows(df) != want_idx:
        out.violate("V1-acknowledged-durable", "variable-rows", {"step": step, "variable": [s, g, v]})
        return False
    got = df[cols].to_numpy()
    for r, key in enumerate(want_idx):
        w = want[key]
        w = w[:len(cols)] if w is not None else None       # fewer components stored than the source has: the leading ones
        gl = [float(x) for x in got[r]]
        if w is None or gl != [float(x) for x in w]:
            out.violate("V1-acknowledged-durable", "variable-values", {"step": step, "variable": [s, g, v], "row": list(key), "file": gl, "model": w,
                                                                       "location": spec["loc"]})
            return False
    if not df.equals(df2):
        out.violate("V4-repeatable-read", "variable", {"step": step, "variable": [s, g, v]})
        return False
    log.add("var", step, s, g, v, len(want_idx))
    out.count("probe:variable_read_back")
    return True


# ------------------------------------------------------------------ execute

def _scratch():
    base = "/dev/shm" if os.path.isdir("/dev/shm") and os.access("/dev/shm", os.W_OK) else None
    return tempfile.mkdtemp(prefix="verif-vmap-", dir=base)


def execute(prop, trace):
    out = Outcome()
    log = Log()
    d = _scratch()
    seam = Seam()
    seam.install()
    try:
        _run(trace, out, log, d, seam)
    finally:
        seam.uninstall()
        shutil.rmtree(d, ignore_errors=True)
    out.digest = log.digest()
    return out


def _features(mesh):
    types = sorted({len(n) for _, n in mesh["elements"]})
    ids = [e for e, _ in mesh["elements"]]
    f = ["d%d" % ref.mesh_dimension(mesh), "z" + mesh["z"], "t" + "-".join(map(str, types))]
    if len(types) > 1:
        f.append("mixed")
    if ids != sorted(ids):
        f.append("shuffled")
    if max(ids) > 10 ** 6:
        f.append("hugeids")
    return ".".join(f)


def _run(trace, out, log, d, seam):
    meshes = {k: (expand_procedural(v["procedural"]) if "procedural" in v else v) for k, v in trace["meshes"].items()}
    if any("procedural" in v for v in trace["meshes"].values()):
        out.count("probe:big_mesh")
    ops = trace["ops"]
    path = os.path.join(d, "f.vmap")
    try:
        exp = VMAPExport(path)
    except Exception as e:   # noqa
        out.violate("exception", "constructor", {"type": type(e).__name__, "msg": str(e)})
        return
    model = ref.Model()
    faults = trace.get("faults")
    FRAMES[0] = Frames(bool(trace.get("kept_frames")), trace.get("level_order", "en"), trace.get("interleave"),
                       trace.get("column_order"))
    if trace.get("column_order"):
        out.count("probe:frame_columns_in_another_order")
    if trace.get("interleave"):
        out.count("probe:interleaved_element_rows")
    if trace.get("level_order") == "ne":
        out.count("probe:node_element_level_order")
    for k, op in enumerate(ops):
        out.steps += 1
        if op["op"] == "mutate_mesh":
            if op["mesh"] in meshes:
                _mutate_mesh(meshes, op, model)
                FRAMES[0].mutated(op["mesh"], meshes[op["mesh"]])
                out.count("op:mutate_mesh_in_place" if FRAMES[0].kept else "op:mutate_mesh")
                log.add("op", k, "mutate_mesh", op["what"])
            continue
        if op["op"] == "read":
            if not verify(path, model, out, log, k):
                return
            out.count("op:read")
            continue
        if op["op"] == "set_attr":
            # renaming a geometry group attribute must not disturb anything stored
            try:
                exp.set_group_attribute("/VMAP/GEOMETRY/%s" % op["geom"], "MYNAME", str(op["value"]).encode("utf8"))
                err = None
            except Exception as e:   # noqa
                err = e
            log.add("op", k, "set_attr", type(err).__name__ if err is not None else "ok")
            out.count("op:set_attr" + (":raises" if err is not None else ""))
            if (err is None) != (op["geom"] in model.geoms):
                if err is not None:
                    out.violate("V1-acknowledged-durable", "valid-call-raises:set_group_attribute",
                                {"step": k, "type": type(err).__name__, "msg": str(err)[:200]})
                    return
                out.count("probe:invalid_call_accepted")
                return
            if not verify(path, model, out, log, k):
                return
            continue
        expect = model_ok(model, op, meshes)
        if expect is None:
            out.count("skipped:not-a-valid-input")
            continue
        if faults and faults["op"] == k:
            if not _faulted(exp, op, k, expect, meshes, model, path, d, seam, faults, out, log):
                return
        seam.reset()
        err = call_real(exp, op, meshes)
        n_calls = seam.count
        log.add("op", k, op["op"], type(err).__name__ if err is not None else "ok", n_calls)
        out.count("op:" + op["op"] + (":raises" if err is not None else ""))
        if err is None and not expect:
            out.count("probe:invalid_call_accepted")
            return                      # the model cannot follow; C20 does not say such calls must raise
        if err is not None and expect:
            out.violate("V1-acknowledged-durable", "valid-call-raises:" + op["op"],
                        {"step": k, "op": _brief(op, meshes), "type": type(err).__name__, "msg": str(err)[:300]})
            return
        if err is None:
            model_apply(model, op, meshes)
            if op["op"] == "add_geometry":
                out.sigs.append("geom|" + _features(meshes[op["mesh"]]))
            elif op["op"] == "add_variable":
                out.sigs.append("var|%s|%s|%s" % (op["var"], op["location"], _features(meshes[op["mesh"]])))
        else:
            out.count("raise:" + type(err).__name__)
        if not verify(path, model, out, log, k, absent=None if err is None else op_target(op), deep=(err is None)):
            return


def _mutate_mesh(meshes, op, model):
    """New values in the caller's mesh.  What has been written to the file keeps the values it was written
    with: the model holds its own copy of a mesh spec from the moment a call is acknowledged."""
    import random as _r
    rr = _r.Random(int(op["seed"]))
    old = meshes[op["mesh"]]
    new = copy.deepcopy(old)
    if op["what"] == "nodal":
        for src in new["nodal"]:
            for n in new["nodal"][src]:
                new["nodal"][src][n] = [v + rr.choice([1.0, -2.5, 100.0]) for v in new["nodal"][src][n]]
    elif op["what"] == "elnodal":
        for src in new["elnodal"]:
            new["elnodal"][src] = [[v * 0.5 + rr.choice([0.0, 3.0]) for v in row] for row in new["elnodal"][src]]
    else:
        for n, c in new["coords"].items():
            if new["z"] == "const":
                new["coords"][n] = [c[0] + 0.25, c[1] - 1.0, c[2]]
            else:
                new["coords"][n] = [x + rr.choice([0.25, -1.0]) for x in c]
        if new["z"] == "vary":
            zs = [c[2] for c in new["coords"].values()]
            if all(z == zs[0] for z in zs):
                k0 = sorted(new["coords"])[0]
                new["coords"][k0][2] += 1.0
    meshes[op["mesh"]] = new        # the model keeps referring to the old spec objects for what is already written


def _brief(op, meshes):
    b = {k: v for k, v in op.items() if k not in ("ids",)}
    if op.get("mesh") in meshes:
        b["mesh_features"] = _features(meshes[op["mesh"]])
    return b


def _faulted(exp, op, k, expect, meshes, model, path, d, seam, faults, out, log):
    """Re-execute op k from the same file state with a fault at the chosen seam
    calls.  Each attempt starts from a byte copy of the file and the exporter's
    saved attributes, so the attempts do not see each other."""
    snap = os.path.join(d, "snap.vmap")
    shutil.copyfile(path, snap)
    saved = dict(exp.__dict__)
    seam.reset()
    err0 = call_real(exp, op, meshes)
    n_calls = seam.count
    kinds = list(seam.kinds)
    shutil.copyfile(snap, path)
    exp.__dict__.clear()
    exp.__dict__.update(saved)
    if (err0 is None) != bool(expect):
        return True          # the unfaulted call already disagrees with the model; reported by the main path
    pts = faults["points"]
    if pts == "all":
        plan = [(n, m) for n in range(n_calls) for m in ("before", "after")]
    else:
        plan = []
        for n, m in pts:
            if n_calls:
                plan.append((int(n) % n_calls, m))
    for n, mode in plan:
        seam.reset(armed=(n, mode))
        err = call_real(exp, op, meshes)
        fired = seam.fired
        seam.reset()
        if fired is None:
            # the call took another path this time (it is deterministic, so this is unexpected)
            out.count("probe:fault_not_reached")
        else:
            out.count("fault:%s:%s" % (mode, fired[2]))
            out.count("faultpoint:%s:%02d:%s" % (op["op"], n, mode))
            out.sigs.append("fault|%s|%02d|%s|%s" % (op["op"] if op["op"] != "add_set" else "add_set", n, mode,
                                                     "valid" if expect else "invalid"))
        log.add("fault", k, n, mode, type(err).__name__ if err is not None else "returned")
        if err is None:
            # swallowed the error and acknowledged: then it must be complete
            if not expect:
                out.count("probe:invalid_call_accepted")
                return False
            m2 = copy.copy(model)
            m2 = _clone(model)
            model_apply(m2, op, meshes)
            if not verify(path, m2, out, log, "%d/f%d%s" % (k, n, mode)):
                return False
        else:
            # V2: failed => absent, everything acknowledged earlier intact
            if not verify(path, model, out, log, "%d/f%d%s" % (k, n, mode), absent=op_target(op)):
                _retag(out, op, n, mode, kinds)
                return False
            # V3: progress once faults stop - the same call now behaves as on a clean file
            err2 = call_real(exp, op, meshes)
            if (err2 is None) != bool(expect):
                if expect:
                    out.violate("V3-progress-after-fault", op["op"],
                                {"step": k, "fault": [n, mode, kinds[n] if n < len(kinds) else None], "op": _brief(op, meshes),
                                 "retry_raises": type(err2).__name__, "msg": str(err2)[:300]})
                    return False
                out.count("probe:invalid_call_accepted")
                return False
            if err2 is None:
                m2 = _clone(model)
                model_apply(m2, op, meshes)
                if not verify(path, m2, out, log, "%d/r%d%s" % (k, n, mode)):
                    _retag(out, op, n, mode, kinds)
                    return False
                out.count("probe:retry_after_fault_succeeded")
        shutil.copyfile(snap, path)
        exp.__dict__.clear()
        exp.__dict__.update(saved)
    return True


def _retag(out, op, n, mode, kinds):
    for v in out.violations:
        if isinstance(v["detail"], dict) and "fault" not in v["detail"]:
            v["detail"]["fault"] = [n, mode, kinds[n] if n < len(kinds) else None]
            v["detail"]["faulted_op"] = op["op"]


def _clone(model):
    m = ref.Model()
    m.geoms = dict(model.geoms)
    m.sets = {k: list(v) for k, v in model.sets.items()}
    m.vars = dict(model.vars)
    m.states = list(model.states)
    return m


# ------------------------------------------------------------------ shrink / classify / describe

def shrink(prop, trace):
    ops = trace["ops"]
    f = trace.get("faults")
    # drop ops (keeping the faulted op's index consistent)
    for size in (len(ops) // 2, len(ops) // 4, 1):
        if size < 1:
            continue
        for start in range(0, len(ops), size):
            idx = set(range(start, min(len(ops), start + size)))
            if f and f["op"] in idx:
                continue
            t = copy.deepcopy(trace)
            t["ops"] = [o for i, o in enumerate(ops) if i not in idx]
            if f:
                t["faults"]["op"] = f["op"] - sum(1 for i in idx if i < f["op"])
            if t["ops"]:
                yield t
    if f:
        t = copy.deepcopy(trace)
        t["faults"] = None
        yield t
        if f["points"] != "all" and len(f["points"]) > 1:
            for p in f["points"]:
                t = copy.deepcopy(trace)
                t["faults"]["points"] = [p]
                yield t
    for key, plain in (("column_order", None), ("interleave", None), ("level_order", "en"), ("kept_frames", False)):
        if trace.get(key) not in (plain, None, False):
            t = copy.deepcopy(trace)
            t[key] = plain
            yield t
    # unused meshes
    used = {o["mesh"] for o in ops if "mesh" in o}
    if set(trace["meshes"]) - used:
        t = copy.deepcopy(trace)
        t["meshes"] = {k: v for k, v in trace["meshes"].items() if k in used}
        yield t
    # shrink meshes: drop elements
    for mk, m in trace["meshes"].items():
        if "procedural" in m:
            if m["procedural"]["n_nodes"] > 9:
                t = copy.deepcopy(trace)
                t["meshes"][mk]["procedural"]["n_nodes"] = 9
                yield t
            continue
        els = m["elements"]
        if len(els) > 1:
            for j in range(len(els)):
                t = copy.deepcopy(trace)
                _drop_element(t["meshes"][mk], j)
                # sets must stay subsets
                for o in t["ops"]:
                    if o["op"] == "add_set" and o["mesh"] == mk:
                        mm = t["meshes"][mk]
                        pool = {n for _, nodes in mm["elements"] for n in nodes} if o["kind"] == "n" else {e for e, _ in mm["elements"]}
                        keep = [i for i in o["ids"] if i in pool]
                        if keep and set(o["ids"]) <= ({n for _, nodes in m["elements"] for n in nodes} | {e for e, _ in m["elements"]}):
                            o["ids"] = keep
                yield t
    # simplify values
    for mk, m in trace["meshes"].items():
        if "procedural" in m:
            continue
        t = copy.deepcopy(trace)
        mm = t["meshes"][mk]
        changed = False
        for n, c in mm["coords"].items():
            new = [float(int(n) % 7), float(int(n) % 5)] + ([c[2] if mm["z"] == "const" else float(int(n) % 3)] if len(c) == 3 else [])
            if new != c:
                mm["coords"][n] = new
                changed = True
        if mm["z"] == "vary":
            zs = [c[2] for c in mm["coords"].values()]
            if all(z == zs[0] for z in zs):
                changed = False
        if changed:
            yield t


def _drop_element(mesh, j):
    rows_before = 0
    for i, (e, nodes) in enumerate(mesh["elements"]):
        if i == j:
            break
        rows_before += len(nodes)
    k = len(mesh["elements"][j][1])
    del mesh["elements"][j]
    for src in mesh["elnodal"]:
        del mesh["elnodal"][src][rows_before:rows_before + k]
    used = {str(n) for _, nodes in mesh["elements"] for n in nodes}
    mesh["coords"] = {n: c for n, c in mesh["coords"].items() if n in used}
    for src in mesh["nodal"]:
        mesh["nodal"][src] = {n: c for n, c in mesh["nodal"][src].items() if n in used}


def classify(prop, trace, v):
    d = v["detail"] if isinstance(v["detail"], dict) else {}
    sig = "%s/%s" % (v["oracle"], v["component"])
    if "fault" in d and d["fault"]:
        sig += "/fault@%s" % d["fault"][2]
    return sig


def describe(prop):
    return {"level": "fault_enumeration",
            "real": ["pylife.vmap.VMAPExport / VMAPImport / vmap_structures (working tree)", "h5py 3.x and libhdf5 on real files in a per-run scratch directory"],
            "stub": ["fault-injecting wrappers on h5py Group.create_group, Group.create_dataset, AttributeManager.create (the storage seam)",
                     "models/vmap_ref.py: in-memory model of acknowledged geometries, sets and variables", "constant VMAP metadata (date/time/user)"],
            "rule": ("one run = one exporter on one scratch file and a seeded history of 4-12 add_geometry / add_node_set / add_element_set / add_variable / read-back operations "
                     "(incl. calls that must raise: duplicates, unknown geometry, non-subset sets, bad set names, unknown variables without location/columns, wrong location type, missing columns, unsupported element, missing coordinate column) "
                     "over seeded meshes (2-D with/without z, 3-D, linear+quadratic, mixed element types, id gaps up to int32 max, shuffled element blocks). After EVERY step the file is read back through the public importer and compared with the model (V1, V2, V4). "
                     "In 70% of runs one operation is additionally re-executed from a byte copy of the file with ENOSPC raised before, or EIO raised after, a seam call (thorough: every seam call of that operation in both modes; quick: 5 seeded points), "
                     "followed by the V2 comparison and an unfaulted retry (V3). distinct_nontrivial counts distinct (operation, seam call index, mode, valid/invalid) fault points fired plus distinct (operation, mesh feature set) acknowledged."),
            "assumptions": ["faults are injected at Python-level h5py calls, never inside libhdf5, __delitem__ (roll-back itself) or File.close",
                            "a variable is written from the same mesh frame as its geometry; nodal variables are consistent per node; ids within int32; unique string set names",
                            "dtypes are not compared; element type ids stored in the file are not part of the round trip through the public importer",
                            "calls the model considers invalid but the exporter accepts end the run without alarm (C20 does not say which calls must raise)"],
            "required_probes": ["op:mutate_mesh_in_place", "probe:node_element_level_order", "fault:before:create_group", "fault:before:create_dataset", "fault:before:attr_create", "fault:after:create_group",
                                "fault:after:create_dataset", "fault:after:attr_create", "probe:retry_after_fault_succeeded", "probe:variable_read_back", "probe:set_filtered", "probe:filter_then_join"]}


def canary():
    """A fresh exporter and importer on a fixed tiny mesh in a scratch file."""
    d = _scratch()
    try:
        path = os.path.join(d, "c.vmap")
        idx = pd.MultiIndex.from_tuples([(2, 5), (2, 1), (2, 9), (1, 1), (1, 9), (1, 4)], names=["element_id", "node_id"])
        mesh = pd.DataFrame({"x": [0.0, 1.0, 2.0, 1.0, 2.0, 3.0], "y": [0.5, 1.5, 2.5, 1.5, 2.5, 3.5],
                             "S11": [1.0, 2.0, 3.0, 4.0, 5.0, 6.0], "S22": 0.0, "S33": 0.0, "S12": 0.0, "S13": 0.5, "S23": 0.25,
                             "dx": [0.1, 0.2, 0.3, 0.2, 0.3, 0.4], "dy": 0.0, "dz": [1.0, 2.0, 3.0, 2.0, 3.0, 4.0],
                             "E11": 0.0, "E22": 0.0, "E33": 0.0, "E12": 0.0, "E13": 0.0, "E23": [6.0, 5.0, 4.0, 3.0, 2.0, 1.0]}, index=idx)
        exp = VMAPExport(path)
        exp.add_geometry("g", mesh)
        exp.add_node_set("g", pd.Index([9, 1]), mesh, "ns")
        exp.add_variable("S", "g", "STRESS_CAUCHY", mesh)
        exp.add_variable("S", "g", "DISPLACEMENT", mesh)
        exp.add_variable("S", "g", "E", mesh)
        imp = VMAPImport(path)
        try:
            df = imp.make_mesh("g", "S").join_coordinates().join_variable("STRESS_CAUCHY").join_variable("DISPLACEMENT").join_variable("E").to_frame()
            flt = imp.make_mesh("g").filter_node_set("ns").to_frame()
            obs = [_frame_rows(df), [str(c) for c in df.columns], [[float(x) for x in r] for r in df.to_numpy()], _frame_rows(flt), sorted(imp.node_sets("g"))]
        finally:
            _close(imp)
        return obs
    finally:
        shutil.rmtree(d, ignore_errors=True)

"""World "operands": histories of broadcasts over a pool of shared, aliased and
re-entering pandas operands (C13).

real: pylife.core.broadcaster.Broadcaster (incl. _IndexLevelCache and the
      None-name/uuid replacement), WoehlerCurve.cycles (an accessor built on
      self.broadcast()).
stub: the operand pool and its aliasing, uuid.uuid4 (seeded), the key-wise
      reference model (a dictionary look-up, in this file).
"""
import copy
import math
import warnings
import uuid as _uuid

import numpy as np
import pandas as pd

from sim import core
from sim.core import Outcome, Log, RealCodeError

from pylife.core.broadcaster import Broadcaster
import pylife.materiallaws.woehlercurve  # noqa: registers the accessor
import pylife.stress.collective  # noqa: registers the load_collective accessor

NAME = "operands"

PROPS = {
    "C13": {"quick": {"runs": 9000, "budget_s": 55, "batch": 25, "det_pool": 16, "det_fresh": 6},
            "thorough": {"runs": 200000, "budget_s": 1100, "batch": 50, "det_pool": 150, "det_fresh": 30}},
}

LEVEL_KEYS = {
    "a": [0, 1, 2, 3],
    "b": ["x", "y", "z"],
    "c": [2, 1, 0],              # positions and keys coincide, reversed
    "d": [10, 20, 30, 40],
    None: [0, 1, 2],
    "from": [1, 2, 3],
    "to": [1, 2, 3],
    "": [5, 6, 7],               # a falsy level name that is not None
    "iv": ["(0,1]", "(1,2]", "(2,4]"],      # interval keys (histogram bins, R ranges); written as strings in the trace
    "x": [0.5, 1.5, "<NA>", -2.25],         # float keys, one of them missing (NaN label; written "<NA>" in traces)
    "r": [0, 10, 20, 30],                   # load cases numbered by a range (a single-level operand may carry a RangeIndex)
    "t": ["t:0", "t:60", "t:300", "t:360"],  # local time stamps (time-zone aware, across a DST switch); "t:<minutes>" in traces
    "level_0": [4, 5, 6],                   # the name reset_index() gives an unnamed level
    "level_1": ["p", "q"],
}
NAMES = ["a", "b", "c", "d", None, "from", "to", "", "iv", "x", "r", "t", "level_0", "level_1"]
T0 = pd.Timestamp("2024-03-30 21:00", tz="Europe/Berlin")


def _progression(keys):
    """(start, stop, step) if the integer keys, in the given order, are an arithmetic progression; else None."""
    if len(keys) < 2 or not all(isinstance(k, int) and not isinstance(k, bool) for k in keys):
        return None
    step = keys[1] - keys[0]
    if step == 0 or any(keys[q + 1] - keys[q] != step for q in range(len(keys) - 1)):
        return None
    return keys[0], keys[-1] + step, step


# ------------------------------------------------------------------ seeded uuid seam

class UuidSeam:
    def __init__(self, seed):
        self.n = 0
        self.seed = seed
        self._orig = None

    def install(self):
        self._orig = _uuid.uuid4
        seam = self

        def fake():
            seam.n += 1
            return _uuid.UUID(int=(seam.seed * 1000003 + seam.n) % (1 << 128), version=4)
        _uuid.uuid4 = fake

    def uninstall(self):
        _uuid.uuid4 = self._orig


# ------------------------------------------------------------------ specs <-> pandas

def _key(name, k):
    if k == "<NA>":
        return float("nan")
    if name == "iv" and isinstance(k, str) and k.startswith("("):
        a, b = k[1:-1].split(",")
        return pd.Interval(float(a), float(b), closed="right")
    if isinstance(k, str) and k.startswith("t:"):
        return T0 + pd.Timedelta(minutes=int(k[2:]))
    return k


def build(spec, pool_objs):
    """spec -> pandas object (aliases resolved against already built objects)."""
    al = spec.get("alias")
    if al:
        base = pool_objs[al["of"]]
        if al["how"] == "same":
            return base
        if al["how"] == "shared_index":
            vals = np.array(spec["values"], dtype=np.float64)
            if spec["kind"] == "series":
                return pd.Series(vals[:, 0], index=base.index, name=spec.get("name"))
            return pd.DataFrame(vals, index=base.index, columns=spec["columns"])
        if al["how"] == "column_view":
            return base[al["column"]]
        if al["how"] == "transposed":
            # the same key tuples, position by position, under permuted level names
            vals = np.array(spec["values"], dtype=np.float64)
            idx = pd.MultiIndex.from_tuples([tuple(_key(n, k) for n, k in zip(spec["names"], r)) for r in spec["index"]], names=spec["names"])
            if spec["kind"] == "series":
                return pd.Series(vals[:, 0], index=idx, name=spec.get("name"))
            return pd.DataFrame(vals, index=idx, columns=spec["columns"])
    names = spec["names"]
    rows = [tuple(_key(n, k) for n, k in zip(names, r)) for r in spec["index"]]
    prog = _progression([r[0] for r in spec["index"]]) if len(names) == 1 and spec.get("as_range") else None
    if prog:
        idx = pd.RangeIndex(prog[0], prog[1], prog[2], name=names[0])      # what a default-indexed, reversed or thinned frame carries
    elif len(names) == 1 and spec.get("one_level_multiindex"):
        idx = pd.MultiIndex.from_arrays([[r[0] for r in rows]], names=names)      # what is left of a wider index
    elif len(names) == 1:
        idx = pd.Index([r[0] for r in rows], name=names[0])
    else:
        idx = pd.MultiIndex.from_tuples(rows, names=names)
    cat = spec.get("categorical")
    if cat and cat["level"] in names and not isinstance(idx, pd.RangeIndex) and not spec.get("one_level_multiindex"):
        # the keys of one level as a categorical whose categories are listed in this operand's own order
        import random as _r
        li = names.index(cat["level"])
        order = list(dict.fromkeys(r[li] for r in rows))
        _r.Random(cat["seed"]).shuffle(order)
        col = pd.Categorical([r[li] for r in rows], categories=order)
        if isinstance(idx, pd.MultiIndex):
            arrays = [idx.get_level_values(q) for q in range(idx.nlevels)]
            arrays[li] = col
            idx = pd.MultiIndex.from_arrays(arrays, names=names)
        else:
            idx = pd.CategoricalIndex(col, name=names[0])
    vals = np.array(spec["values"], dtype=np.float64).reshape(len(rows), -1)
    if spec["kind"] == "series":
        return pd.Series(vals[:, 0], index=idx, name=spec.get("name"))
    df = pd.DataFrame(vals, index=idx, columns=spec["columns"])
    if spec.get("bigint_column"):
        # a column of 64-bit integers next to the float ones (nanosecond time stamps): no float holds them
        base = 1790577000123456789
        df[spec["bigint_column"]] = np.array([base + 7 * q for q in range(len(df))], dtype=np.int64 if spec["bigint_column"] == "ts" else np.uint64)
    return df


def snapshot(obj):
    """Everything B1 compares: values, index values, level names, level order,
    index class, columns / name."""
    idx = obj.index
    rows = [tuple(_py(k) for k in (t if isinstance(t, tuple) else (t,))) for t in idx.tolist()]
    snap = {"kind": "series" if isinstance(obj, pd.Series) else "frame",
            "names": [n for n in idx.names], "index_class": type(idx).__name__ if isinstance(idx, pd.MultiIndex) else "Index",
            "rows": rows}
    if isinstance(obj, pd.Series):
        snap["values"] = [[_f(x)] for x in obj.to_numpy()]
        snap["name"] = obj.name
        snap["columns"] = None
    else:
        per_col = [obj.iloc[:, q].tolist() for q in range(obj.shape[1])]      # column by column: no common dtype
        snap["values"] = [[_f(col[r]) for col in per_col] for r in range(len(obj))]
        snap["columns"] = [c for c in obj.columns]
    return snap


def _py(k):
    if isinstance(k, float) and math.isnan(k):
        return "<NA>"
    if isinstance(k, (np.floating,)) and np.isnan(k):
        return "<NA>"
    if isinstance(k, pd.Interval):
        return "(%g,%g]" % (k.left, k.right)
    if isinstance(k, pd.Timestamp):
        if k.tz is None or str(k.tz) != str(T0.tz):
            return "t?:" + k.isoformat()        # not one of the operands' keys (they are local times of one zone)
        return "t:%d" % int((k - T0) / pd.Timedelta(minutes=1))
    if isinstance(k, (np.integer,)):
        return int(k)
    if isinstance(k, (np.floating,)):
        return float(k)
    return k


def _f(x):
    if isinstance(x, (int, np.integer)) and not isinstance(x, (bool, np.bool_)):
        return int(x)                   # whole numbers stay exact (time stamps, ids beyond 2**53)
    x = float(x)
    return "nan" if math.isnan(x) else x


def _same_values(got, want):
    """Row values equal; an integer that had to become a float (a NaN elsewhere in its column) equals its float."""
    if len(got) != len(want):
        return False
    for g, w in zip(got, want):
        if g == w:
            continue
        if isinstance(w, int) and isinstance(g, float) and float(w) == g:
            continue
        return False
    return True


def snap_equal(a, b):
    return core.cjson(_jsonable(a)) == core.cjson(_jsonable(b))


def _jsonable(s):
    d = dict(s)
    d["rows"] = [list(r) for r in s["rows"]]
    d["names"] = [("<None>" if n is None else n) for n in s["names"]]
    d["columns"] = None if s["columns"] is None else [str(c) for c in s["columns"]]
    if "name" in d:
        d["name"] = None if d["name"] is None else str(d["name"])
    return d


# ------------------------------------------------------------------ generation

class _Counter:
    def __init__(self):
        self.v = 0.0

    def next(self):
        self.v += 1.0
        return self.v + 0.25


def gen_operand(rng, cnt, names=None, subset=False):
    if names is None:
        k = rng.choice([1, 1, 2, 2, 3])
        names = rng.sample(NAMES, k)
    universe = []
    for n in names:
        keys = list(LEVEL_KEYS[n])
        m = rng.randint(2, len(keys))
        universe.append(keys[:m] if rng.random() < 0.5 else rng.sample(keys, m))
    rows = [[]]
    for keys in universe:
        rows = [r + [k] for r in rows for k in keys]
    if subset and len(rows) > 1:
        rows = rng.sample(rows, rng.randint(1, len(rows)))
    if rng.random() < 0.6:
        rng.shuffle(rows)
    kind = rng.choice(["series", "frame", "frame"])
    spec = {"kind": kind, "names": list(names), "index": rows}
    if kind == "series":
        spec["values"] = [[cnt.next()] for _ in rows]
        spec["name"] = rng.choice([None, "load", "v"])
    else:
        cols = rng.choice([["p"], ["p", "q"], ["foo", "bar", "baz"]])
        spec["columns"] = cols
        spec["values"] = [[cnt.next() for _ in cols] for _ in rows]
    return spec


def full_rows_for(spec_names, key_sets):
    rows = [[]]
    for n in spec_names:
        rows = [r + [k] for r in rows for k in key_sets[n]]
    return rows


def generate(prop, rng, tier):
    cnt = _Counter()
    pool = []
    # a common key set per level name for this run, so that for every shared
    # level each key occurs in both operands (quantifier of C13)
    key_sets = {}
    for n in NAMES:
        keys = list(LEVEL_KEYS[n])
        m = rng.randint(2, len(keys))
        key_sets[n] = rng.sample(keys, m) if rng.random() < 0.5 else keys[:m]
    key_sets["r"] = rng.choice([[0, 10, 20, 30], [0, 10, 20], [10, 20, 30], [0, 20], [10, 30], [0, 30], [10, 20]])
    n_pool = rng.randint(3, 6)
    # in some runs the keys of one level are categoricals, each operand listing the categories in an order of its own
    cat_level = rng.choice(["a", "b", "c", "d"]) if rng.random() < 0.15 else "-"
    for i in range(n_pool):
        r = rng.random()
        if pool and r < 0.22 and r >= 0.12:
            base = rng.randrange(len(pool))
            b = pool[base]
            if "alias" not in b and len(b["names"]) >= 2 and None not in b["names"] and "iv" not in b["names"]:
                k0 = [set(type(r[q]).__name__ for r in b["index"]) for q in range(len(b["names"]))]
                names2 = list(reversed(b["names"]))
                spec = {"alias": {"of": base, "how": "transposed"}, "kind": rng.choice(["series", "frame"]),
                        "names": names2, "index": [list(r) for r in b["index"]]}
                if spec["kind"] == "series":
                    spec["values"] = [[cnt.next()] for _ in b["index"]]
                    spec["name"] = "tr"
                else:
                    spec["columns"] = ["u"]
                    spec["values"] = [[cnt.next()] for _ in b["index"]]
                pool.append(spec)
                continue
        if pool and r < 0.12:
            base = rng.randrange(len(pool))
            if "alias" not in pool[base]:
                b = pool[base]
                how = rng.choice(["same", "shared_index", "column_view"])
                if how == "column_view" and b["kind"] != "frame":
                    how = "shared_index"
                spec = {"alias": {"of": base, "how": how}, "kind": b["kind"], "names": b["names"], "index": b["index"]}
                if how == "shared_index":
                    spec["kind"] = rng.choice(["series", "frame"])
                    if spec["kind"] == "series":
                        spec["values"] = [[cnt.next()] for _ in b["index"]]
                        spec["name"] = "al"
                    else:
                        spec["columns"] = ["u", "v"]
                        spec["values"] = [[cnt.next(), cnt.next()] for _ in b["index"]]
                elif how == "column_view":
                    spec["alias"]["column"] = rng.choice(b["columns"])
                    spec["kind"] = "series"
                pool.append(spec)
                continue
        k = rng.choice([1, 1, 2, 2, 3])
        names = rng.sample(NAMES, k)
        spec = {"kind": rng.choice(["series", "frame", "frame"]), "names": names}
        if cat_level in names:
            spec["categorical"] = {"level": cat_level, "seed": rng.randint(0, 999)}
        rows = full_rows_for(names, key_sets)
        if rng.random() < 0.6:
            rng.shuffle(rows)
        if len(names) == 1 and rng.random() < 0.12 and names[0] not in ("iv", "x"):
            spec["one_level_multiindex"] = True
        elif len(names) == 1 and rng.random() < 0.5:
            spec["as_range"] = True
            if names[0] == "r" and rng.random() < 0.8:
                rows = sorted(rows, reverse=rng.random() < 0.5)
        spec["index"] = rows
        if spec["kind"] == "series":
            spec["values"] = [[cnt.next()] for _ in rows]
            spec["name"] = rng.choice([None, "load", "v"])
        else:
            cols = rng.choice([["p"], ["p", "q"], ["foo", "bar", "baz"]])
            if rng.random() < 0.2:
                # a data column labelled like an index level some other operand may have (a frame that was
                # reset_index()ed, a column "scenario" next to a load indexed by scenario)
                other = [x for x in NAMES if isinstance(x, str) and x not in names]
                if other:
                    cols = list(cols)
                    cols[rng.randrange(len(cols))] = rng.choice(other)
                    spec["column_named_like_a_level"] = True
            spec["columns"] = cols
            spec["values"] = [[cnt.next() for _ in cols] for _ in rows]
            if rng.random() < 0.15:
                spec["bigint_column"] = rng.choice(["ts", "ts", "hash"])
        if rng.random() < 0.25 and len(rows) > 1:
            # a subset of the rows: for equal level names the other operand then has keys this one lacks (NaN fill)
            keep = sorted(rng.sample(range(len(rows)), rng.randint(1, len(rows) - 1)))
            spec["index"] = [rows[q] for q in keep]
            spec["values"] = [spec["values"][q] for q in keep]
        pool.append(spec)
    steps = []
    for _ in range(rng.randint(5, 14) if rng.random() > 0.03 else rng.randint(40, 70)):
        r = rng.random()
        if r < 0.68:
            steps.append({"op": "bc", "obj": rng.randrange(64) if rng.random() < 0.6 else 0, "prm": rng.randrange(64),
                          "reenter": rng.random() < 0.3, "held": rng.random() < 0.5})
        elif r < 0.72:
            steps.append({"op": "bc_drop", "obj": rng.randrange(64), "prm": rng.randrange(64), "which": rng.randrange(8)})
        elif r < 0.78:
            steps.append({"op": "bc_scalar", "obj": rng.randrange(64), "scalar": rng.choice([5.0, -1.5, 0.0]),
                          "as": rng.choice(["float", "int", "np", "0d"])})
        elif r < 0.83:
            n_c = rng.randint(1, 4)
            fk = rng.choice(["scalar", "scalar", "series", "int", "same_index", "equal_index"])
            n_f = rng.randint(1, 3)
            steps.append({"op": "lc", "calls": [rng.choice(["scale", "shift"]) for _ in range(rng.randint(1, 3))],
                          "cycle_keys": rng.sample([0, 1, 2, 3, 7], n_c), "cycle_level": rng.choice(["cycle_number", None, "c"]),
                          "from": [float(rng.randint(-300, 100)) for _ in range(n_c)], "to": [float(rng.randint(20, 400)) for _ in range(n_c)],
                          "layout": rng.choice(["from_to", "from_to", "to_from_extra", "range_mean"]),
                          "factor_kind": fk, "factor": [rng.choice([2.0, -1.5, 0.5, 3.0, 10.0]) for _ in range(n_f)],
                          "factor_keys": rng.sample([3, 5, 8, 13], n_f), "factor_level": rng.choice(["element_id", "node"])})
        elif r < 0.88:
            steps.append({"op": "bc_array", "obj": rng.randrange(64), "len": rng.choice([1, 2, 3, "match", "match"]),
                          "as": rng.choice(["ndarray", "ndarray", "list", "tuple"])})
        else:
            n_el = rng.randint(1, 4)
            n_sc = rng.randint(1, 4)
            steps.append({"op": "wc",
                          "elements": rng.sample([1, 2, 3, 5, 8, 13], n_el),
                          "k_1": [rng.choice([3.0, 5.0, 7.5]) for _ in range(n_el)],
                          "ND": [rng.choice([1e6, 2e6, 5e5]) for _ in range(n_el)],
                          "SD": [rng.choice([100.0, 250.0, 320.0]) if rng.random() > 0.04 else 0.0 for _ in range(n_el)],   # 0: no endurance limit at all
                          "k_2": [rng.choice([float("inf"), 9.0, 13.0, 9.5]) for _ in range(n_el)],
                          "k1_int": rng.random() < 0.3,
                          "TN": rng.choice([1.0, 1.0, 4.0, 12.0]), "TS": rng.choice([1.0, 1.0, 1.25]),
                          "native_fp": rng.choice([0.5, 0.5, 0.1]), "fp": rng.choice([0.5, 0.5, 0.1, 0.9, 0.025]),
                          "scenarios": rng.sample(["s1", "s2", "s3", "s4"], n_sc),
                          "loads": [rng.choice([80.0, 120.0, 250.0, 300.0, 500.0]) for _ in range(n_sc)],
                          "calc": rng.choice(["cycles", "cycles", "load"]),
                          "cycles": [rng.choice([1e4, 1e5, 5e5, 1e6, 2e6, 1e7, 1e8]) for _ in range(n_sc)],
                          "load_level_name": rng.choice(["scenario", "scenario", None]),
                          "element_level_name": rng.choice(["element_id", "element_id", "scenario_x"]),
                          # loads and cycle numbers are whole numbers here: any numeric dtype holds them
                          "given_dtype": rng.choice(["float64", "float64", "int64", "int32", "uint64", "uint32", "float32"])})
    if rng.random() < 0.005:
        # once in a while a parameter beyond a million rows (index engines of pandas change their ways there)
        keys = rng.sample(["steel", "titanium", "alu", "cast", "brass"], rng.randint(2, 4))
        steps.insert(rng.randint(0, len(steps)), {"op": "bc_big", "keys": keys, "n_per_key": 1_000_000 // len(keys) + rng.randint(1, 5000),
                                                  "param_sorted": rng.random() < 0.8})
    tr = {"world": NAME, "pool": pool, "steps": steps, "uuid_seed": rng.randint(1, 10 ** 6)}
    if rng.random() < 0.35:
        # mean stress transformation with ONE kept Haigh diagram object and ONE kept collective object
        # that its owner modifies in place between the calls
        n_el = rng.randint(1, 3)
        els = rng.sample([3, 5, 7, 11], n_el)
        per_element = rng.random() < 0.7
        cyc = list(range(rng.randint(1, 4)))
        rows = [[e, c] for e in els for c in cyc] if per_element and rng.random() < 0.7 else [[None, c] for c in cyc]
        tr["ms"] = {"elements": els, "M": [rng.choice([0.1, 0.2, 0.3, 0.5]) for _ in els],
                    "M2": [rng.choice([0.03, 0.1, 0.2]) for _ in els], "per_element": per_element,
                    "rows": rows, "columns": rng.choice(["from_to", "range_mean"]),
                    "loops": [[float(rng.randint(-300, 100)), float(rng.randint(20, 400))] for _ in rows]}
        if per_element and rows[0][0] is None and rng.random() < 0.5:
            # sensitivities per (element, node) in mesh order (shared nodes, not sorted by first appearance)
            n_e = rng.randint(1, 3)
            pairs = []
            for e in rng.sample([1, 2, 3, 7], n_e):
                for nd in rng.sample([1, 2, 3, 5, 8], rng.randint(2, 3)):
                    pairs.append([e, nd])
            tr["ms"]["elements"] = pairs
            tr["ms"]["M"] = [rng.choice([0.1, 0.2, 0.3, 0.4, 0.5, 0.6]) for _ in pairs]
            tr["ms"]["M2"] = [rng.choice([0.03, 0.05, 0.1, 0.12, 0.15, 0.22]) for _ in pairs]
            tr["ms"]["mesh_sens"] = True
        if per_element and rows[0][0] is not None and rng.random() < 0.4:
            parts = []
            for _e in els:
                cutsR = sorted(rng.sample([-3.0, -1.0, 0.0, 0.5], rng.randint(0, 2)))
                bounds = [-math.inf] + cutsR + [1.0]
                segs = [[bounds[q], bounds[q + 1], rng.choice([0.05, 0.1, 0.2, 0.3, 0.4, 0.5])] for q in range(len(bounds) - 1)]
                segs.append([1.0, math.inf, rng.choice([0.0, 0.0, 0.05])])
                if rng.random() < 0.5:
                    segs = segs[-1:] + segs[:-1]          # (1, inf) listed first, as FKM-Goodman does
                parts.append(segs)
            tr["ms"]["partitions"] = parts
            tr["ms"]["per_element"] = True
        extra = []
        for _ in range(rng.randint(2, 5)):
            if rng.random() < 0.55:
                extra.append({"op": "ms_transform", "R_goal": rng.choice([-1.0, 0.0, -0.5, 0.5, -3.0]),
                              "via": rng.choice(["held", "held", "accessor"])})
            else:
                extra.append({"op": "ms_mutate", "how": rng.choice(["column", "index", "cell"]), "seed": rng.randint(0, 10 ** 6)})
        extra.append({"op": "ms_transform", "R_goal": rng.choice([-1.0, 0.0, -0.5])})
        for e in extra:
            steps.insert(rng.randint(0, len(steps)), e)
        # keep the relative order of the ms steps as generated
        ms_iter = iter(extra)
        tr["steps"] = [next(ms_iter) if st["op"].startswith("ms_") else st for st in steps]
    return tr


# ------------------------------------------------------------------ reference model (B3)

def _lookup_table(snap):
    """key tuple (over the operand's own levels) -> list of values."""
    return {tuple(r): v for r, v in zip(snap["rows"], snap["values"])}


def _positions(own_names, result_names, none_rank):
    """For each of the operand's levels the position of that level in the result."""
    pos = []
    for n in own_names:
        if n is not None:
            if result_names.count(n) != 1:
                return None
            pos.append(result_names.index(n))
        else:
            # Two operands that both carry an unnamed level: whether these are
            # one level or two is not defined by C13; both readings are accepted.
            cand = [i for i, x in enumerate(result_names) if x is None]
            if not cand:
                return None
            pos.append(cand[none_rank] if none_rank < len(cand) else cand[0])
    return pos


def check_keywise(out, label, orig_snap, res, res_names, none_rank, step, who):
    """B3 for one operand: every row of the returned object carries the value the
    original holds at that row's key restricted to the original's levels; NaN
    where it has no such key."""
    pos = _positions(orig_snap["names"], res_names, none_rank)
    if pos is None:
        out.violate(label, who + ":levels", {"step": step, "original_names": _n(orig_snap["names"]), "result_names": _n(res_names)})
        return False
    table = _lookup_table(orig_snap)
    rs = snapshot(res)
    ncol = len(orig_snap["values"][0]) if orig_snap["values"] else 0
    for r, vals in zip(rs["rows"], rs["values"]):
        key = tuple(r[p] for p in pos)
        want = table.get(key)
        if want is None:
            want = ["nan"] * ncol
        if not _same_values(list(vals), list(want)):
            out.violate(label, who + ":values", {"step": step, "row": list(r), "restricted_key": list(key), "got": vals, "want": want,
                                                 "original_names": _n(orig_snap["names"]), "result_names": _n(res_names)})
            return False
    # no original key lost, no key duplicated
    seen = [tuple(r[p] for p in pos) for r in rs["rows"]]
    lost = [list(k) for k in table if k not in set(seen)]
    if lost:
        out.violate("B5-no-row-lost", who, {"step": step, "lost_keys": lost[:10], "original_names": _n(orig_snap["names"]),
                                            "result_names": _n(res_names)})
        return False
    return True


def _n(names):
    return ["<None>" if x is None else x for x in names]


# ------------------------------------------------------------------ execute

def layout_signature(a, b):
    """Level-name relation with an unnamed level counted as a private level."""
    an, bn = a["names"], b["names"]
    sa, sb = set(x for x in an if x is not None), set(x for x in bn if x is not None)
    shared = sa & sb
    priv_a = len(an) - len(shared)
    priv_b = len(bn) - len(shared)
    if not shared:
        rel = "disjoint"
    elif priv_a == 0 and priv_b == 0:
        rel = "equal" if an == bn else "equal-permuted"
    elif priv_a == 0 or priv_b == 0:
        rel = "contained"
    else:
        rel = "overlapping"
    return "%s>%s|%s|%d-%d|%s%s" % (a["kind"][0], b["kind"][0], rel, len(an), len(bn),
                                    "N" if None in an else "", "n" if None in bn else "")


def execute(prop, trace):
    out = Outcome()
    log = Log()
    seam = UuidSeam(int(trace.get("uuid_seed", 1)))
    seam.install()
    try:
        _run(trace, out, log)
    finally:
        seam.uninstall()
    out.count("seam:uuid4_calls", seam.n)
    out.digest = log.digest()
    return out


def _run(trace, out, log):
    pool = []
    snaps = []
    specs = trace["pool"]
    for spec in specs:
        try:
            obj = build(spec, pool)
        except Exception as e:   # noqa - a shrunk trace may hold an inconsistent alias
            out.count("skipped:unbuildable_operand")
            continue
        pool.append(obj)
        snaps.append(snapshot(obj))
    if len(pool) < 1:
        return

    def check_pool(step, what):
        # B1: every pool object identical to its snapshot
        for i, (o, s) in enumerate(zip(pool, snaps)):
            now = snapshot(o)
            if not snap_equal(now, s):
                field = next(k for k in ("names", "rows", "index_class", "values", "columns") if core.cjson(_jsonable(now)[k]) != core.cjson(_jsonable(s)[k]))
                out.violate("B1-operands-unmodified", field,
                            {"step": step, "during": what, "pool_object": i, "field": field,
                             "now": _jsonable(now)[field] if field != "values" else None,
                             "was": _jsonable(s)[field] if field != "values" else None})
                return False
        return True

    ms = MsHistory(trace["ms"]) if trace.get("ms") else None
    held = {}
    for k, st in enumerate(trace["steps"]):
        out.steps += 1
        op = st["op"]
        if op.startswith("ms_"):
            if ms is None:
                continue
            if not ms.step(st, k, out, log):
                return
            continue
        if op == "wc":
            if not _wc_step(st, k, out, log):
                return
            out.count("op:derived_calculation")
            continue
        if op == "lc":
            if not _lc_step(st, k, out, log):
                return
            out.count("op:collective_scale_shift")
            continue
        if op == "bc_big":
            if not _big_step(st, k, out, log):
                return
            out.count("op:broadcast_million_rows")
            continue
        i = int(st["obj"]) % len(pool)
        obj = pool[i]
        if op == "bc_scalar":
            try:
                sc = float(st["scalar"])
                sc_in = {"int": int(sc) if sc == int(sc) else sc, "np": np.float64(sc), "0d": np.array(sc)}.get(st.get("as"), sc)
                prm, res = Broadcaster(obj).broadcast(sc_in)
            except Exception as e:  # noqa
                out.violate("exception", "scalar", {"step": k, "type": type(e).__name__, "msg": str(e)[:200]})
                return
            ok = True
            if isinstance(obj, pd.Series):
                ok = np.ndim(prm) == 0 and float(prm) == float(st["scalar"]) and snap_equal(snapshot(res), snaps[i])
            else:
                ok = (isinstance(prm, pd.Series) and prm.index.equals(res.index) and snap_equal(snapshot(res), snaps[i])
                      and all(float(x) == float(st["scalar"]) for x in prm.to_numpy()))
            if not ok:
                out.violate("B3-keywise-values", "scalar", {"step": k, "obj": _jsonable(snaps[i])["names"]})
                return
            log.add(k, "scalar", i)
            out.count("op:bc_scalar")
            if not check_pool(k, "bc_scalar"):
                return
            continue
        if op == "bc_array":
            n = len(obj) if st["len"] == "match" else int(st["len"])
            arr = np.arange(n, dtype=np.float64) * 1.5 + 100.0
            arr_in = {"list": [float(x) for x in arr], "tuple": tuple(float(x) for x in arr)}.get(st.get("as"), arr)
            must_fail = isinstance(obj, pd.DataFrame) and n not in (1, len(obj))
            try:
                prm, res = Broadcaster(obj).broadcast(arr_in)
                err = None
            except ValueError as e:
                err = e
            except Exception as e:  # noqa
                out.violate("exception", "array", {"step": k, "type": type(e).__name__, "msg": str(e)[:200]})
                return
            if err is not None:
                if not must_fail:
                    out.violate("exception", "array", {"step": k, "type": "ValueError", "msg": str(err)[:200], "len": n, "obj_len": len(obj)})
                    return
            else:
                if must_fail:
                    out.count("probe:mismatching_array_accepted")
                elif isinstance(obj, pd.DataFrame):
                    okk = prm.index.equals(res.index) and snap_equal(snapshot(res), snaps[i]) and \
                        [float(x) for x in prm.to_numpy()] == [float(x) for x in np.broadcast_to(arr, len(obj))]
                    if not okk:
                        out.violate("B3-keywise-values", "array", {"step": k})
                        return
                else:
                    # Series object: one row per array element, one column per object key
                    okk = isinstance(res, pd.DataFrame) and len(res) == n and prm.index.equals(res.index) and \
                        [float(x) for x in np.asarray(prm)] == [float(x) for x in arr]
                    if okk:
                        want = [v[0] for v in snaps[i]["values"]]
                        for r in range(n):
                            if [_f(x) for x in res.iloc[r].to_numpy()] != want:
                                okk = False
                    if not okk:
                        out.violate("B3-keywise-values", "array", {"step": k, "obj_kind": "series"})
                        return
            log.add(k, "array", i, n, err is None)
            out.count("op:bc_array")
            if not check_pool(k, "bc_array"):
                return
            continue
        if op == "bc_drop":
            # droplevel variant: the returned pair deliberately has different indices, so only
            # "operands unmodified" (B1) and the object's key-wise values are checked
            j = int(st["prm"]) % len(pool)
            prm_o = pool[j]
            a, b = snaps[i], snaps[j]
            an, bn = a["names"], b["names"]
            named = [x for x in an if x is not None and x in bn]
            if (isinstance(obj, pd.Series) and an == [None]) or not named or None in an or None in bn \
                    or _has_duplicate_keys(a) or _has_duplicate_keys(b):
                out.count("skipped:droplevel_layout")
                continue
            total = an + [x for x in bn if x not in an]
            if len(total) < 2:
                out.count("skipped:droplevel_layout")
                continue
            shared_ok = ({tuple(r[an.index(lv)] for lv in named) for r in a["rows"]}
                         == {tuple(r[bn.index(lv)] for lv in named) for r in b["rows"]})
            if not shared_ok:
                out.count("skipped:shared_keys_not_in_both")
                continue
            dl = [total[int(st["which"]) % len(total)]]
            try:
                prm_r, obj_r = Broadcaster(obj).broadcast(prm_o, droplevel=dl)
            except Exception as e:  # noqa
                # C13 does not define droplevel; an exception is not judged, but the operands must survive
                out.count("probe:droplevel_raises")
                return        # operands may be left re-coded after a failed call; C13 does not speak about failed calls
            log.add(k, "bc_drop", i, j, dl)
            out.count("op:bc_drop")
            if not check_pool(k, "bc_drop"):
                return
            continue
        # ---- bc: pool object against pool object
        j = int(st["prm"]) % len(pool)
        prm_o = pool[j]
        a, b = snaps[i], snaps[j]
        # the quantifier: for partially shared levels every shared-level key must be present in both operands
        an, bn = a["names"], b["names"]
        named_a, named_b = [x for x in an if x is not None], [x for x in bn if x is not None]
        shared = [x for x in named_a if x in named_b]
        special = isinstance(obj, pd.Series) and an == [None]
        if an.count(None) > 1 or bn.count(None) > 1:
            out.count("skipped:operand_with_two_unnamed_levels")
            continue
        if None in an and None in bn and shared and not special:
            out.count("skipped:two_unnamed_levels_with_shared_levels")
            continue
        same_levels = sorted(map(str, an)) == sorted(map(str, bn)) and None not in an
        if shared and not same_levels and not special:
            ok_keys = True
            for lv in shared:
                ka = {r[an.index(lv)] for r in a["rows"]}
                kb = {r[bn.index(lv)] for r in b["rows"]}
                if ka != kb:
                    ok_keys = False
            # all shared-key *combinations* present in both
            ca = {tuple(r[an.index(lv)] for lv in shared) for r in a["rows"]}
            cb = {tuple(r[bn.index(lv)] for lv in shared) for r in b["rows"]}
            if not ok_keys or ca != cb:
                out.count("skipped:shared_keys_not_in_both")
                if st.get("held") is not None and (k + int(trace.get("uuid_seed", 0))) % 2 == 0:
                    # Outside C13's quantifier, so neither the result nor an exception is judged - but the
                    # caller's objects are his: whatever the call does, it may not leave them changed, and
                    # the history goes on with the same objects afterwards.
                    try:
                        with warnings.catch_warnings():
                            warnings.simplefilter("ignore")
                            Broadcaster(obj).broadcast(prm_o)
                        out.count("probe:out_of_scope_call_returned")
                    except Exception:       # noqa
                        out.count("probe:out_of_scope_call_raised")
                    if not check_pool(k, "bc (outside the quantifier)"):
                        return
                continue
        if _has_duplicate_keys(a) or _has_duplicate_keys(b):
            out.count("skipped:duplicate_keys")
            continue
        sig = layout_signature(a, b) + ("|self" if obj is prm_o else "|sharedidx" if obj.index is prm_o.index else "")
        try:
            if st.get("held"):
                # a Broadcaster / signal accessor object that its user keeps and re-uses for several parameters
                bc = held.get(i)
                if bc is None:
                    bc = held[i] = Broadcaster(obj)
                else:
                    out.count("probe:held_broadcaster_reused")
            else:
                bc = Broadcaster(obj)
            prm_r, obj_r = bc.broadcast(prm_o)
        except Exception as e:  # noqa
            out.violate("exception", "broadcast:" + layout_signature(a, b).split("|")[1],
                        {"step": k, "type": type(e).__name__, "msg": str(e)[:200], "layout": sig,
                         "obj_names": _n(an), "prm_names": _n(bn)})
            check_pool(k, "bc (raised)")
            return
        log.add(k, "bc", i, j, sig, snapshot(obj_r)["rows"], snapshot(prm_r)["rows"])
        out.count("op:bc")
        if any(isinstance(getattr(x_.index, "levels", [x_.index])[q_], pd.CategoricalIndex) for x_ in (obj, prm_o) if isinstance(getattr(x_, "index", None), pd.Index)
               for q_ in range(getattr(x_.index, "nlevels", 1))):
            out.count("probe:categorical_level")
        for x_, y_ in ((obj, prm_o), (prm_o, obj)):
            if isinstance(x_, pd.DataFrame) and isinstance(getattr(y_, "index", None), pd.Index) and \
                    any(isinstance(c_, str) and c_ in y_.index.names for c_ in x_.columns):
                out.count("probe:column_named_like_a_level_of_the_other_operand")
        if not check_pool(k, "bc"):
            return
        if special:
            # documented mapping mode: object keys become columns
            okk = prm_r is prm_o or snap_equal(snapshot(prm_r), b)
            okk = okk and isinstance(obj_r, pd.DataFrame) and obj_r.index.equals(prm_o.index) and \
                [_py(c[0] if isinstance(c, tuple) and len(c) == 1 else c) for c in obj_r.columns] == [r[0] for r in a["rows"]]
            if okk:
                want = [v[0] for v in a["values"]]
                for r in range(len(obj_r)):
                    if [_f(x) for x in obj_r.iloc[r].to_numpy()] != want:
                        okk = False
                        break
            if not okk:
                out.violate("B3-keywise-values", "mapping-mode", {"step": k, "layout": sig})
                return
            out.sigs.append(sig + "|mapping")
            continue
        # B2
        if not obj_r.index.equals(prm_r.index) or list(obj_r.index.names) != list(prm_r.index.names):
            out.violate("B2-identical-index", layout_signature(a, b).split("|")[1],
                        {"step": k, "layout": sig, "obj_index": snapshot(obj_r)["rows"][:20], "prm_index": snapshot(prm_r)["rows"][:20],
                         "obj_names": _n(obj_r.index.names), "prm_names": _n(prm_r.index.names)})
            return
        res_names = list(obj_r.index.names)
        rs = snapshot(obj_r)
        if len(set(rs["rows"])) != len(rs["rows"]) and not any("nan" in map(str, r) for r in rs["rows"]):
            out.violate("B5-no-row-duplicated", layout_signature(a, b).split("|")[1], {"step": k, "layout": sig, "rows": [list(r) for r in rs["rows"]][:30]})
            return
        if not check_keywise(out, "B3-keywise-values", a, obj_r, res_names, 0, k, "object"):
            _tag(out, sig)
            return
        if not check_keywise(out, "B3-keywise-values", b, prm_r, res_names, 1 if (None in an and None in bn) else 0, k, "parameter"):
            _tag(out, sig)
            return
        # kinds preserved
        if (isinstance(obj, pd.DataFrame) and list(obj_r.columns) != list(obj.columns)) or \
                (isinstance(prm_o, pd.DataFrame) and list(prm_r.columns) != list(prm_o.columns)):
            out.violate("B3-keywise-values", "columns", {"step": k, "layout": sig})
            return
        out.sigs.append(sig)
        if st.get("reenter") and len(pool) < 10:
            for o in (obj_r, prm_r):
                if not _has_nan_keys(o) and list(o.index.names).count(None) <= 1:
                    pool.append(o)
                    snaps.append(snapshot(o))
                    out.count("probe:reentered_operand")


def _tag(out, sig):
    for v in out.violations:
        if isinstance(v["detail"], dict):
            v["detail"].setdefault("layout", sig)


def _has_duplicate_keys(snap):
    return len(set(snap["rows"])) != len(snap["rows"])


def _has_nan_keys(o):
    try:
        return bool(o.index.to_frame().isna().any().any())
    except Exception:   # noqa
        return True


def goodman_scalar(sa, sm, M, M2, R_goal):
    """FKM-Goodman transformation of one loop (amplitude sa > 0, mean sm) to R_goal,
    written from the definition: follow the iso-damage polyline of the Haigh diagram
    (slope 0 for R > 1, -M for -inf <= R <= 0, -M2 for 0 < R < 1) to the ray R = R_goal."""
    cg = (1.0 + R_goal) / (1.0 - R_goal)
    regions = [(-math.inf, -1.0, 0.0), (-1.0, 1.0, M), (1.0, math.inf, M2)]
    c = sm / sa
    for _ in range(6):
        if c < cg:
            lo, hi, m = next(r for r in regions if r[0] <= c < r[1])
            target = min(cg, hi)
        elif c > cg:
            lo, hi, m = next(r for r in regions if r[0] < c <= r[1])
            target = max(cg, lo)
        else:
            return sa
        sa2 = (sa + m * sm) / (1.0 + m * target)
        sa, sm, c = sa2, target * sa2, target
    return sa


def haigh_scalar(sa, sm, segments, R_goal):
    """Transformation of one loop along the iso-damage polyline of an arbitrary gap-free Haigh diagram.
    segments: [(R_left, R_right, M)] covering (-inf, 1) and (1, inf).  In the plane (mean, amplitude) a ray
    R = const is mean = c * amplitude with c = (1+R)/(1-R): R in (1, inf] <-> c in (-inf, -1], R in [-inf, 1) <-> c in [-1, inf)."""
    def c_of(R):
        if R == math.inf or R == -math.inf:
            return -1.0
        if R == 1.0:
            return math.inf
        return (1.0 + R) / (1.0 - R)
    regions = []
    for left, right, m in segments:
        if left >= 1.0:                         # R > 1: c from -inf (R -> 1+) to -1 (R -> inf)
            lo = -math.inf if left == 1.0 else c_of(left)
            hi = c_of(right)
        else:
            lo, hi = c_of(left), c_of(right)
        regions.append((lo, hi, m))
    regions.sort()
    cg = c_of(R_goal)
    c = sm / sa
    for _ in range(2 * len(regions) + 2):
        if c < cg:
            lo, hi, m = next(r for r in regions if r[0] <= c < r[1])
            target = min(cg, hi)
        elif c > cg:
            lo, hi, m = next(r for r in regions if r[0] < c <= r[1])
            target = max(cg, lo)
        else:
            return sa
        sa2 = (sa + m * sm) / (1.0 + m * target)
        sa, sm, c = sa2, target * sa2, target
    return sa


class MsHistory:
    """B4 as a history: one kept HaighDiagram, one kept collective object that is
    modified in place by its owner between transformations."""

    def __init__(self, spec):
        import pylife.strength.meanstress as MST
        import pylife.stress.collective  # noqa
        self.spec = spec
        self.rows = [list(r) for r in spec["rows"]]
        self.loops = [list(l) for l in spec["loops"]]
        els = spec["elements"]
        self.partitions = spec.get("partitions")
        if self.partitions:
            self.partitions = [[(float(l), float(r), float(m)) for l, r, m in segs] for segs in self.partitions]
            # per-element Haigh diagrams with different R partitions (validated per element by pyLife)
            tuples, vals = [], []
            for el, segs in zip(els, self.partitions):
                for left, right, m in segs:
                    tuples.append((el, pd.Interval(float(left), float(right))))
                    vals.append(float(m))
            sens = pd.Series(vals, index=pd.MultiIndex.from_tuples(tuples, names=["element_id", "R"]))
            self.sens = sens.copy()
            self.hd = MST.HaighDiagram(sens)
        else:
            if spec.get("mesh_sens"):
                # sensitivities per (element, node) of a mesh with shared nodes: a two-level index in mesh order
                sens = pd.DataFrame({"M": spec["M"], "M2": spec["M2"]},
                                    index=pd.MultiIndex.from_tuples([tuple(e) for e in els], names=["element_id", "node_id"]))
            elif spec["per_element"]:
                sens = pd.DataFrame({"M": spec["M"], "M2": spec["M2"]}, index=pd.Index(els, name="element_id"))
            else:
                sens = pd.Series({"M": spec["M"][0], "M2": spec["M2"][0]})
            self.sens = sens.copy()
            self.hd = MST.HaighDiagram.fkm_goodman(sens)
        self.coll = self._frame()

    def _index(self):
        if self.rows and self.rows[0][0] is None:
            return pd.Index([r[1] for r in self.rows], name="cycle_number")
        return pd.MultiIndex.from_tuples([tuple(r) for r in self.rows], names=["element_id", "cycle_number"])

    def _frame(self):
        fr = [l[0] for l in self.loops]
        to = [l[0] + l[1] for l in self.loops]
        if self.spec["columns"] == "from_to":
            return pd.DataFrame({"from": fr, "to": to}, index=self._index())
        return pd.DataFrame({"range": [b - a for a, b in zip(fr, to)], "mean": [0.5 * (a + b) for a, b in zip(fr, to)]}, index=self._index())

    def _alone(self, ei, a, w, Rg):
        import pylife.strength.meanstress as MST
        hd = MST.HaighDiagram.from_dict({(l, r): m for l, r, m in self.partitions[ei]})
        one = pd.DataFrame({"range": [w], "mean": [a + 0.5 * w]}, index=pd.Index([0], name="cycle_number"))
        res = hd.transform(one, Rg)
        return 0.5 * float(res["range"].iloc[0])

    def step(self, st, k, out, log):
        import random as _r
        if st["op"] == "ms_mutate":
            rr = _r.Random(int(st["seed"]))
            how = st["how"]
            if how == "index" and self.rows[0][0] is not None and len(self.spec["elements"]) > 1:
                # the owner re-labels its collective: element blocks in another order
                els = list(dict.fromkeys(r[0] for r in self.rows))
                perm = els[1:] + els[:1]
                m = dict(zip(els, perm))
                self.rows = [[m[r[0]], r[1] + 10] for r in self.rows]
                self.coll.index = self._index()
            elif how == "cell":
                q = rr.randrange(len(self.loops))
                self.loops[q][1] = float(rr.randint(20, 400))
                new = self._frame()
                for c in new.columns:
                    self.coll.loc[self.coll.index[q], c] = new[c].iloc[q]
            else:
                self.loops = [[a * 0.5, b + 150.0] for a, b in self.loops]
                new = self._frame()
                for c in new.columns:
                    self.coll[c] = new[c].to_numpy()
            out.count("op:ms_mutate_in_place")
            log.add(k, "ms_mutate", how)
            return True
        Rg = float(st["R_goal"])
        before = snapshot(self.coll)
        try:
            if st.get("via") == "accessor" and not self.partitions:
                # the collective's own accessor (a fresh Haigh diagram per call)
                lc = self.coll.meanstress_transform.fkm_goodman(self.sens.copy(), Rg)
                res = pd.DataFrame({"range": 2.0 * lc.amplitude})
                out.count("op:ms_transform_via_accessor")
            else:
                res = self.hd.transform(self.coll, Rg)
        except Exception as e:   # noqa
            out.violate("exception", "derived:meanstress", {"step": k, "type": type(e).__name__, "msg": str(e)[:200]})
            return False
        if not snap_equal(snapshot(self.coll), before):
            out.violate("B1-operands-unmodified", "derived", {"step": k, "calculation": "meanstress transform"})
            return False
        names = list(res.index.names)
        rs = snapshot(res)
        want = {}
        for (e, c), (a, w) in zip(self.rows, self.loops):
            sa, sm = 0.5 * w, a + 0.5 * w
            for ei, el in enumerate(self.spec["elements"]):
                if e is not None and el != e:
                    continue
                if e is None and not self.spec["per_element"] and ei > 0:
                    continue
                if self.partitions:
                    # C13's statement: the vectorised result equals the element-by-element result.  With
                    # per-element partitions the element-by-element result is pyLife's own transformation of
                    # that element alone (fresh diagram, fresh one-loop collective).  The closed form is only
                    # observed: whether HaighDiagram.transform itself follows the iso-damage polyline for
                    # every listing order of the intervals is C12's subject, not C13's.
                    amp = self._alone(ei, a, w, Rg)
                    closed = haigh_scalar(sa, sm, [tuple(x) for x in self.partitions[ei]], Rg)
                    if abs(amp - closed) > 1e-9 * max(1.0, abs(closed)):
                        out.count("observation:element_alone_differs_from_closed_form")
                else:
                    amp = goodman_scalar(sa, sm, self.spec["M"][ei], self.spec["M2"][ei], Rg)
                ent = tuple(el) if isinstance(el, list) else el
                key = (ent if (self.spec["per_element"]) else None, c)
                want[key] = 2.0 * amp
        try:
            pc = names.index("cycle_number")
            pe = names.index("element_id") if "element_id" in names else None
            pn = names.index("node_id") if "node_id" in names else None
            ir = list(res.columns).index("range")
        except ValueError:
            out.violate("B4-derived-calculation", "index", {"step": k, "names": _n(names), "calculation": "meanstress"})
            return False
        seen = set()
        for r, v in zip(rs["rows"], rs["values"]):
            ent = None if pe is None else (r[pe] if pn is None else (r[pe], r[pn]))
            key = (ent, r[pc])
            seen.add(key)
            w = want.get(key)
            g = v[ir]
            if w is None or g == "nan" or abs(float(g) - w) > 1e-9 * max(1.0, abs(w)):
                out.violate("B4-derived-calculation", "meanstress", {"step": k, "key": list(key), "got": g, "want": w, "R_goal": Rg,
                                                                     "names": _n(names)})
                return False
        if seen != set(want) or len(rs["rows"]) != len(want):
            out.violate("B4-derived-calculation", "coverage", {"step": k, "rows": len(rs["rows"]), "want": len(want), "calculation": "meanstress"})
            return False
        out.count("op:ms_transform")
        log.add(k, "ms_transform", Rg, rs["rows"], rs["values"])
        return True


def _wc_step(st, k, out, log):
    """B4: allowable cycles of per-element curves for per-scenario loads equal
    the element-by-element scalar evaluation."""
    el = [int(x) for x in st["elements"]]
    ename = st["element_level_name"]
    k1 = [float(x) for x in st["k_1"]]
    if st.get("k1_int") and all(x == int(x) for x in k1):
        k1 = [int(x) for x in k1]            # integer slopes are as valid as float ones
    TN, TS = float(st.get("TN", 1.0)), float(st.get("TS", 1.0))
    native_fp, fp = float(st.get("native_fp", 0.5)), float(st.get("fp", 0.5))
    wc = pd.DataFrame({"k_1": k1, "ND": st["ND"], "SD": st["SD"], "k_2": [float(x) for x in st["k_2"]],
                       "TN": TN, "TS": TS, "failure_probability": native_fp},
                      index=pd.Index(el, name=ename))
    calc = st.get("calc", "cycles")
    given = st["loads"] if calc == "cycles" else st["cycles"]
    load = pd.Series([float(x) for x in given], index=pd.Index(list(st["scenarios"]), name=st["load_level_name"]), name="load")
    gd = st.get("given_dtype") or "float64"
    if gd != "float64" and all(float(x) == int(x) and 0 <= x < 2 ** 31 for x in given):
        load = load.astype(gd)
        out.count("dtype:given_" + gd)
    wc_snap, load_snap = snapshot(wc), snapshot(load)
    try:
        if fp == 0.5 and native_fp == 0.5 and st.get("fp") is None:
            cyc = wc.woehler.cycles(load) if calc == "cycles" else wc.woehler.load(load)
        else:
            cyc = wc.woehler.cycles(load, fp) if calc == "cycles" else wc.woehler.load(load, fp)
            out.count("op:derived_with_failure_probability")
    except Exception as e:   # noqa
        out.violate("exception", "derived:cycles", {"step": k, "type": type(e).__name__, "msg": str(e)[:200]})
        return False
    if not snap_equal(snapshot(load), load_snap) or not snap_equal(snapshot(wc), wc_snap):
        out.violate("B1-operands-unmodified", "derived", {"step": k, "load_names_now": _n(load.index.names)})
        return False
    names = list(cyc.index.names)
    rows = snapshot(cyc)
    try:
        pe = names.index(ename)
        ps = [i for i in range(len(names)) if i != pe][0]
    except Exception:   # noqa
        out.violate("B4-derived-calculation", "index", {"step": k, "names": _n(names)})
        return False
    seen = set()
    for r, v in zip(rows["rows"], rows["values"]):
        e, s = r[pe], r[ps]
        seen.add((e, s))
        ie, is_ = el.index(e), list(st["scenarios"]).index(s)
        SD, ND = float(st["SD"][ie]), float(st["ND"][ie])
        if fp != native_fp:
            # scatter semantics (documented): N_90/N_10 = TN, SD_90/SD_10 = TS, log-normal; shifting the
            # endurance limit moves the knee along the k_1 line
            from scipy.stats import norm
            z = norm.ppf(native_fp) - norm.ppf(fp)
            SD_t = SD / 10 ** (z * math.log10(TS) / 2.5631031311)
            ND_t = ND / 10 ** (z * math.log10(TN) / 2.5631031311)
            if SD != 0:
                ND_t *= (SD_t / SD) ** (-float(st["k_1"][ie]))
            SD, ND = SD_t, ND_t
        if calc == "cycles":
            L = float(st["loads"][is_])
            kk = float(st["k_1"][ie]) if not L < SD else float(st["k_2"][ie])
            if SD == 0:
                want = 0.0 if math.isfinite(kk) else float("inf")        # (L / 0) ** -k: no load at all is survived
            else:
                want = ND * (L / SD) ** (-kk) if math.isfinite(kk) else float("inf")
        else:
            N = float(st["cycles"][is_])
            kk = float(st["k_1"][ie]) if not N > ND else float(st["k_2"][ie])
            want = SD * (N / ND) ** (-1.0 / kk) if math.isfinite(kk) else SD
        got = float(v[0]) if v[0] != "nan" else float("nan")
        ok = (math.isinf(want) and got == want) or (math.isfinite(want) and abs(got - want) <= 1e-10 * abs(want)) or (want == 0.0 and got == 0.0)
        if not ok:
            out.violate("B4-derived-calculation", "cycles", {"step": k, "element": e, "scenario": s, "got": got, "want": want})
            return False
    if len(seen) != len(el) * len(st["scenarios"]) or len(rows["rows"]) != len(seen):
        out.violate("B4-derived-calculation", "coverage", {"step": k, "rows": len(rows["rows"]), "want": len(el) * len(st["scenarios"])})
        return False
    log.add(k, "wc", rows["rows"], rows["values"])
    return True


def _big_step(st, k, out, log):
    """A parameter with more than a million rows (loads per material and time step) against a small signal
    (one curve per material): the same key-wise statement, evaluated with array operations."""
    keys = list(st["keys"])                     # the order in which the signal lists them
    n_per = int(st["n_per_key"])
    obj = pd.DataFrame({"p": [float(10 + q) for q in range(len(keys))], "q": [float(-q) - 0.5 for q in range(len(keys))]},
                       index=pd.Index(keys, name="mat"))
    order = sorted(keys) if st.get("param_sorted", True) else list(reversed(keys))
    lev = np.repeat(np.array(order, dtype=object), n_per)
    run = np.tile(np.arange(n_per, dtype=np.int64), len(order))
    prm = pd.Series(np.arange(len(lev), dtype=np.float64) * 0.5, index=pd.MultiIndex.from_arrays([lev, run], names=["mat", "i"]), name="load")
    obj_before, prm_vals, prm_idx = obj.copy(deep=True), prm.to_numpy().copy(), prm.index
    try:
        prm_r, obj_r = Broadcaster(obj).broadcast(prm)
    except Exception as e:   # noqa
        out.violate("exception", "broadcast:million-rows", {"step": k, "type": type(e).__name__, "msg": str(e)[:200]})
        return False
    if not obj.equals(obj_before) or list(obj.index.names) != ["mat"] or not np.array_equal(prm.to_numpy(), prm_vals) or prm.index is not prm_idx and not prm.index.equals(prm_idx):
        out.violate("B1-operands-unmodified", "million-rows", {"step": k})
        return False
    try:
        ok_index = prm_r.index.equals(obj_r.index) and len(prm_r) == len(prm) and set(prm_r.index.names) == {"mat", "i"}
        mats = prm_r.index.get_level_values("mat")
        runs = prm_r.index.get_level_values("i").to_numpy()
        pos_of = {m_: q for q, m_ in enumerate(order)}
        want_prm = (np.array([pos_of[m_] for m_ in mats.unique()])[mats.codes if hasattr(mats, "codes") else pd.Categorical(mats, categories=list(mats.unique())).codes] * n_per + runs) * 0.5
        ok_prm = np.array_equal(prm_r.to_numpy(), want_prm)
        key_pos = {m_: q for q, m_ in enumerate(keys)}
        codes = pd.Categorical(mats, categories=keys).codes
        ok_obj = np.array_equal(obj_r["p"].to_numpy(), 10.0 + codes) and np.array_equal(obj_r["q"].to_numpy(), -codes.astype(np.float64) - 0.5)
    except Exception as e:   # noqa
        out.violate("B3-keywise-values", "million-rows:shape", {"step": k, "type": type(e).__name__, "msg": str(e)[:200]})
        return False
    if not ok_index:
        out.violate("B2-identical-index", "million-rows", {"step": k, "rows": [len(prm_r), len(obj_r)]})
        return False
    if not ok_prm or not ok_obj:
        bad = int(np.sum(obj_r["p"].to_numpy() != 10.0 + codes))
        out.violate("B3-keywise-values", "million-rows:" + ("object" if not ok_obj else "parameter"),
                    {"step": k, "signal_key_order": keys, "rows": len(prm_r), "object_rows_with_another_keys_value": bad})
        return False
    log.add(k, "big", keys, n_per, len(prm_r))
    return True


def _lc_step(st, k, out, log):
    """Scaling / shifting a load collective (an accessor calculation resting on self.broadcast()):
    ONE kept collective frame is the operand of one to three calls; after every call it must still hold what
    its owner put there, and every result row carries the original's from/to for its cycle, scaled or
    shifted by the factor for its element."""
    ck = [int(x) for x in st["cycle_keys"]]
    fr, to = [float(x) for x in st["from"]], [float(x) for x in st["to"]]
    layout = st.get("layout", "from_to")
    idx = pd.Index(ck, name=st.get("cycle_level"))
    if layout == "range_mean":
        coll = pd.DataFrame({"range": [abs(b - a) for a, b in zip(fr, to)], "mean": [(a + b) / 2.0 for a, b in zip(fr, to)]}, index=idx)
        # the accessor's reading of range/mean: from = mean - range/2, to = mean + range/2
        fr, to = [m - r / 2.0 for r, m in zip(coll["range"], coll["mean"])], [m + r / 2.0 for r, m in zip(coll["range"], coll["mean"])]
    elif layout == "to_from_extra":
        coll = pd.DataFrame({"to": to, "note": [1.0] * len(ck), "from": fr}, index=idx)
    else:
        coll = pd.DataFrame({"from": fr, "to": to}, index=idx)
    fk = st.get("factor_kind", "scalar")
    fvals = [float(x) for x in st["factor"]]
    if fk == "series":
        fkeys = [int(x) for x in st["factor_keys"]][:len(fvals)]
        factor = pd.Series(fvals[:len(fkeys)], index=pd.Index(fkeys, name=st.get("factor_level", "element_id")), name="f")
        per = dict(zip(fkeys, fvals))
    elif fk in ("same_index", "equal_index") and st.get("cycle_level") is None:
        out.count("skipped:two_unnamed_levels")      # unnamed levels are never "the same level": no single reading
        return True
    elif fk in ("same_index", "equal_index"):
        # one factor per cycle: a Series on the collective's own Index object, or on an equal index of its own
        per_cycle = {c: fvals[q % len(fvals)] + q for q, c in enumerate(ck)}
        factor = pd.Series([per_cycle[c] for c in ck], index=coll.index if fk == "same_index" else pd.Index(ck, name=st.get("cycle_level")), name="f")
        per = None
    elif fk == "int" and fvals[0] == int(fvals[0]):
        factor, per = int(fvals[0]), None
    else:
        factor, per = fvals[0], None
    coll_snap = snapshot(coll)
    f_snap = snapshot(factor) if isinstance(factor, pd.Series) else None
    for call in st.get("calls", ["scale"]):
        try:
            res = (coll.load_collective.scale(factor) if call == "scale" else coll.load_collective.shift(factor)).to_pandas()
        except Exception as e:   # noqa
            out.violate("exception", "derived:collective_" + call, {"step": k, "type": type(e).__name__, "msg": str(e)[:200]})
            return False
        if not snap_equal(snapshot(coll), coll_snap) or (f_snap is not None and not snap_equal(snapshot(factor), f_snap)):
            out.violate("B1-operands-unmodified", "derived:collective", {"step": k, "call": call, "layout": layout, "factor": fk})
            return False
        try:
            names = list(res.index.names)
            rows = [t if isinstance(t, tuple) else (t,) for t in res.index.tolist()]
            pc = names.index(st.get("cycle_level"))
            got_from, got_to = [float(x) for x in res["from"]], [float(x) for x in res["to"]]
        except Exception as e:   # noqa
            out.violate("B4-derived-calculation", "collective:shape", {"step": k, "call": call, "type": type(e).__name__, "msg": str(e)[:200]})
            return False
        seen = set()
        for r, gf, gt in zip(rows, got_from, got_to):
            c = int(r[pc])
            if fk in ("same_index", "equal_index"):
                f, key = per_cycle.get(c), (c,)
            elif per is None:
                f, key = float(factor), (c,)
            else:
                e = [int(x) for q, x in enumerate(r) if q != pc][0]
                f, key = per.get(e), (c, e)
            if c not in ck or f is None:
                out.violate("B4-derived-calculation", "collective:keys", {"step": k, "call": call, "row": list(map(_py, r))})
                return False
            seen.add(key)
            q = ck.index(c)
            wf, wt = (fr[q] * f, to[q] * f) if call == "scale" else (fr[q] + f, to[q] + f)
            if abs(gf - wf) > 1e-9 * max(1.0, abs(wf)) or abs(gt - wt) > 1e-9 * max(1.0, abs(wt)):
                out.violate("B4-derived-calculation", "collective:values",
                            {"step": k, "call": call, "row": list(map(_py, r)), "got": [gf, gt], "want": [wf, wt], "layout": layout})
                return False
        want_n = len(ck) * (len(per) if per is not None else 1)
        if len(seen) != want_n or len(rows) != want_n:
            out.violate("B4-derived-calculation", "collective:coverage", {"step": k, "call": call, "rows": len(rows), "want": want_n})
            return False
        log.add(k, "lc", call, [list(map(_py, r)) for r in rows], got_from, got_to)
    return True


# ------------------------------------------------------------------ shrink / classify / describe

def shrink(prop, trace):
    steps = trace["steps"]
    for cand in core.drop_chunks(steps, 1):
        t = copy.deepcopy(trace)
        t["steps"] = cand
        yield t
    # pool: drop operands nobody aliases (indices in steps are taken modulo the pool size, so fix them first)
    n = len(trace["pool"])
    for st_i, st in enumerate(steps):
        for key in ("obj", "prm"):
            if key in st and isinstance(st[key], int) and st[key] >= n:
                t = copy.deepcopy(trace)
                t["steps"][st_i][key] = st[key] % n
                yield t
                return
    aliased = {s["alias"]["of"] for s in trace["pool"] if "alias" in s}
    for i in range(n - 1, -1, -1):
        if i in aliased or n <= 1:
            continue
        used = any(st.get("obj") == i or st.get("prm") == i for st in steps)
        if used:
            continue
        t = copy.deepcopy(trace)
        del t["pool"][i]
        for s in t["pool"]:
            if "alias" in s and s["alias"]["of"] > i:
                s["alias"]["of"] -= 1
        for st in t["steps"]:
            for key in ("obj", "prm"):
                if isinstance(st.get(key), int) and st[key] > i:
                    st[key] -= 1
        yield t
    # aliases -> plain
    for i, s in enumerate(trace["pool"]):
        if "alias" in s and s["alias"]["how"] == "shared_index":
            t = copy.deepcopy(trace)
            del t["pool"][i]["alias"]
            yield t
    # fewer rows
    for i, s in enumerate(trace["pool"]):
        if "alias" in s or i in aliased:
            continue
        if len(s["index"]) > 1:
            for j in range(len(s["index"])):
                t = copy.deepcopy(trace)
                del t["pool"][i]["index"][j]
                del t["pool"][i]["values"][j]
                yield t
        if s["kind"] == "frame" and len(s["columns"]) > 1:
            t = copy.deepcopy(trace)
            t["pool"][i]["columns"] = s["columns"][:1]
            t["pool"][i]["values"] = [v[:1] for v in s["values"]]
            yield t
    for st_i, st in enumerate(steps):
        if st.get("reenter"):
            t = copy.deepcopy(trace)
            t["steps"][st_i]["reenter"] = False
            yield t


def classify(prop, trace, v):
    sig = "%s/%s" % (v["oracle"], v["component"])
    d = v["detail"] if isinstance(v["detail"], dict) else {}
    if v["oracle"] == "exception" and "obj_names" in d:
        on = [x for x in d["obj_names"]]
        pn = [x for x in d["prm_names"]]
        named_o = {x for x in on if x != "<None>"}
        named_p = {x for x in pn if x != "<None>"}
        shared = named_o & named_p
        priv_o = len(on) - len(shared)
        priv_p = len(pn) - len(shared)
        if shared and priv_o >= 1 and priv_p >= 1:
            return "exception/both-operands-have-private-levels-beside-shared-ones/%s" % d.get("type")
    return sig


def describe(prop):
    return {"level": "exploration",
            "real": ["pylife.core.broadcaster.Broadcaster.broadcast, _IndexLevelCache, None-name/uuid replacement (working tree)",
                     "pylife.materiallaws.woehlercurve.WoehlerCurve.cycles (accessor built on self.broadcast())", "pandas align/join underneath"],
            "stub": ["operand pool with deliberate aliasing (same object as both operands, two objects sharing one Index instance, a Series that is a column of a pool DataFrame)",
                     "uuid.uuid4 replaced by a seeded generator", "key-wise dictionary reference model"],
            "rule": ("one run = a pool of 3-6 Series/DataFrames (1-3 index levels drawn from a, b, c, d and one unnamed level; one key set per level name per run so that shared-level keys occur in both operands; "
                     "seeded level order, row order and sizes; keys whose positional codes coincide) and a history of 5-14 steps: broadcast(pool i, pool j), broadcast(i, scalar), broadcast(i, array), "
                     "allowable cycles of per-element Woehler curves for per-scenario loads, with 30% of the returned objects re-entering the pool as later operands. After EVERY step all pool objects are compared with the snapshot taken when they entered the pool (B1), "
                     "the returned pair must have identical index (B2), every returned row must carry the original's value at the row's key restricted to the original's levels, NaN where absent, no key lost or duplicated (B3/B5), derived calculation == scalar formula (B4). "
                     "distinct_nontrivial counts distinct layout signatures (operand kinds, level-name relation equal/permuted/disjoint/contained/overlapping, level counts, unnamed levels, alias kind)."),
            "assumptions": ["unique keys per operand; for partially shared levels every shared key combination occurs in both operands (steps violating the quantifier are skipped and counted)",
                            "droplevel calls are exercised only for 'operands unmodified' (the returned pair then deliberately has different indices; an exception there is counted, not judged)",
                            "two unnamed levels (one per operand) are only exercised for otherwise disjoint names, where the level order of the result is fixed",
                            "no exception is injected inside broadcast; calls outside the quantifier (a shared-level key missing in one operand) are made now and then and only 'operands unmodified' is judged afterwards, whether they raise or return",
                            "level names are strings (incl. the empty string) or None; integer level names are excluded because pandas itself cannot tell a level named 0 from level number 0"],
            "required_probes": ["probe:out_of_scope_call_raised", "probe:held_broadcaster_reused", "op:bc", "op:bc_scalar", "op:bc_array", "op:bc_drop", "op:derived_calculation", "op:ms_transform", "op:ms_mutate_in_place", "probe:reentered_operand", "seam:uuid4_calls"]}


def canary():
    """Fresh operands, a fresh Broadcaster and a fresh Woehler accessor on fixed inputs."""
    a = pd.Series([1.25, 2.25, 3.25, 4.25], index=pd.MultiIndex.from_tuples([("x", 0), ("x", 1), ("y", 0), ("y", 1)], names=["b", "a"]))
    b = pd.DataFrame({"p": [10.5, 20.5]}, index=pd.Index([1, 0], name="a"))
    prm, obj = Broadcaster(a).broadcast(b)
    wc = pd.DataFrame({"k_1": [5.0, 7.0], "ND": [1e6, 2e6], "SD": [100.0, 250.0], "k_2": [9.0, float("inf")],
                       "TN": 4.0, "TS": 1.25, "failure_probability": 0.5}, index=pd.Index([3, 8], name="element_id"))
    cyc = wc.woehler.cycles(pd.Series([120.0, 300.0], index=pd.Index(["s1", "s2"], name="scenario")), 0.1)
    return [snapshot(obj)["rows"], snapshot(obj)["values"], snapshot(prm)["values"], snapshot(cyc)["rows"], snapshot(cyc)["values"]]
